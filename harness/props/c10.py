"""C10 - LAS written by TotalDepth reads back as the same log (LAS/core/WriteLAS.py -> LAS/core/LASRead.py)."""
import io, math
from fractions import Fraction as Fr

CLAIM = {
 'text': ('Lean 4 theorems about a model of the frame-array writers of LAS/core/WriteLAS.py, for all channel lists, '
          'requested sets, widths, decimals and rational values: same_channels (curve section = ~A heading = every data '
          'row = channel 0 + requested-and-present, same_channels_separate for the writers called one by one, specSel_mem_iff), fields_separated / heading_fields_separated (a row '
          'tokenises on blanks into exactly its value texts whatever the width), print_error (|printed - v| <= 1/2 10^-d, '
          'round-half-even) and print_int_exact, rows_count, data_row_tokens, reduce_mem; composition with the reader model of C09: roundtrip_row_tokens, roundtrip_value, roundtrip_int, and the FILE-LEVEL round trip roundtrip_file (C09.parse of header + the whole written text = the listed channels, names/units in order, one frame per source frame, every cell the decimal cellDec of the reduced value; cellDec_spec: within 1/2 10^-d, exact for integer first/min/max; cells_wf); writer_history_independent. The model is tied to the source '
          'on every run by a correspondence (channel lists, heading line, every data row, tokenising, reductions, the '
          'float/int formatting primitive) and the property is evaluated end to end on the implementation '
          '(write_curve_and_array_section_to_las -> LASRead) with exact Fraction arithmetic. Proof is the right level for '
          'the channel predicate and the layout (unbounded lists/widths); float formatting and numpy reductions are exercised.'),
 'note': ('Trusted: Lean kernel; model<->code correspondence on the cases of the run. Not proved: CPython '
          'format(float, ".nf") = round-half-even of the exact binary value (probed against the Rat model on every run); '
          'float rounding inside numpy mean/median (checked against the exact rational mean/median with an ulp bound). '
          'Identities are str (all shipped callers); no NaN/inf; X values distinct after printing. Non-ASCII names/units are exercised through real files (oracle only, the model is ASCII). roundtrip_file assumes (decidable, necessity shown by '
          'examples): WRAP NO header, no DATE.D/TIME.HHMMSS channel, identities/units plain tokens, descriptions without colon, '
          'distinct printed X values; the whole model text (fileText) is compared with the real writer and the C09 model parse of it '
          'with the real LASRead on every run (streams file_text, file_readback_model).'),
 'technique': 'Lean 4 proof (list induction, rational arithmetic) + model-implementation correspondence + end-to-end oracle',
 'design_ref': 'DESIGN.md section 6 C10',
}

RULE = ('random frame arrays: 1..6 channels (distinct str identities, some wider than the field), 1..8 frames, dtypes '
        'float32/float64/(u)int8..64, dimensions of rank 1..3, values: ordinary, 1e-12..1e18 magnitudes, +-0.0, exact '
        'halves at the last printed decimal and their neighbours, -999.25 (the NULL value), type minima/maxima and '
        'integers beyond 2**53; every reduction, width 1..24, .0f...9f, subset kinds empty/all/some/some+absent/x only/'
        'absent only; written through write_curve_and_array_section_to_las, or through the three writers called one by one '
        'with separate copies of the set, or curve section + write_array_section_to_las; write HISTORIES: the same FrameArray object written 2..4 times with different subsets/reductions/widths/formats/entry points and writes of a second object in between, every output checked on its own. A case is non-trivial when it has >= 2 channels written and >= 2 frames; distinct by '
        '(dtypes, shapes, reduction, subset kind, width, decimals, first row text).')

ASSUMPTIONS = [
    'channel identities are str (RP66V1/BIT/DAT/LAS callers all pass str); int/bytes identities are API-only and recorded as a defect candidate in notes/C10.md',
    'identities/units are non-empty-or-blank-free tokens without " ", ".", ":" that do not start with "#" or "~" and are not read as a number/yes/no by the reader (such names are run separately as a repaired class: they must read back under their name)',
    'no NaN/inf values (the reader maps nan/inf text to float nan/inf; "within half a unit" is meaningless there)',
    'X axis values are distinct after printing (the reader rejects duplicate X values); colliding cases are counted and only checked at text level',
    'Python float(text) is correctly rounded (checked: |readback - printed| <= ulp/2)',
]
TRUSTED = ['modelled, not verified: CPython float.__format__ / int.__format__ (replaced by fmtFixed / intText in the model and compared on every printed row and on a separate probe stream)',
           'modelled, not verified: numpy first/min/max/mean/median (model: exact rationals; float rounding of mean/median bounded by an ulp tolerance in the harness)',
           'numpy, fractions.Fraction as the oracle arithmetic']

ANCHOR_FILES = ['src/TotalDepth/LAS/core/WriteLAS.py', 'src/TotalDepth/LAS/core/LASRead.py', 'src/TotalDepth/common/data_table.py',
                'src/TotalDepth/common/LogPass.py']
EXTRA_LEAN_TARGETS = ['drv_c09']      # the reader model used by the end-to-end stream

HEADER = ('~Version Information Section\nVERS. 2.0 : CWLS\nWRAP. NO : one line per frame\n'
          '~Well Information Section\nNULL. -999.25 :\n')
REDUCTIONS = ['first', 'mean', 'median', 'min', 'max']
FLOATS = ['float32', 'float64']
INTS = ['int8', 'int16', 'int32', 'int64', 'uint8', 'uint16', 'uint32', 'uint64']
NAME_CHARS = 'ABCDEFGHIJKLMNOPQRSTUVWXYZabcdefghijklmnopqrstuvwxyz0123456789_-/[]()%+'
# every key and (stripped) value of the reader's LASBase.UNITS_LAS_TO_LIS ('F' -> 'FEET', 'mts' -> 'M   ') with case variants
UNITS = ['F', 'mts', 'FEET', 'M', 'f', 'MTS', '', 'm', 'ft', 'api', 'V/V', 'g/cm3', 'ohm.m', 'us/ft', 'degC', 'lbs', 'mV', '0.1in', 'K', 'HHMMSS', 'D', 'MS', 'S', 'hhmmss']


# ----------------------------------------------------------------------------- generation

def _reads_as_value(s):
    try:
        float(s); return True
    except ValueError:
        pass
    try:
        int(s); return True
    except ValueError:
        pass
    return s.strip().lower() in ('yes', 'no')


def _ident(rng, taken):
    """A channel identity: a blank-free token, sometimes LIS-style padded with blanks ('GR  ', ' X') - the reader strips
    them - and sometimes one of the reader's special words (TIME, DATE; the units pool has HHMMSS and D)."""
    while True:
        k = rng.random()
        if k < 0.06:
            s = rng.choice(['TIME', 'DATE', 'Time', 'DATES'])
        else:
            n = rng.choice([1, 2, 3, 4, 4, 4, 5, 8, 12, 20, 30])
            s = rng.choice('ABCDEFGHIJKLMNOPQRSTUVWXYZabcdefghijklmnopqrstuvwxyz') + ''.join(rng.choice(NAME_CHARS) for _ in range(n - 1))
            if s in ('DATE', 'TIME'):
                continue
        if k > 0.85:
            s = rng.choice([s.ljust(4), s + ' ', ' ' + s, s + '  ', '  ' + s + ' '])
        if s in taken or _reads_as_value(s.strip()):
            continue
        return s


def _variants(rng, name):
    """names that are NOT `name` but look like it: stripped, padded, other case"""
    v = {name.strip(), name.strip().ljust(4), name + ' ', ' ' + name, name.lower(), name.upper(), name.strip().lower()}
    v.discard(name)
    return sorted(v)


def _float_value(rng, d, dtype):
    import numpy as np
    k = rng.random()
    if k < 0.25:
        v = round(rng.uniform(-5000, 5000), rng.randint(0, 6))
    elif k < 0.45:
        v = rng.choice([-1, 1]) * 10.0 ** rng.uniform(-12, 15) * rng.uniform(1, 10)
    elif k < 0.50:
        v = rng.choice([0.0, -0.0])
    elif k < 0.70:
        # an exact half of the last printed decimal: m / 2**(d+1) with m odd, and its neighbours
        m = 2 * rng.randint(-2000, 2000) + 1
        v = m / 2.0 ** (d + 1)
        j = rng.random()
        if j < 0.25: v = math.nextafter(v, math.inf)
        elif j < 0.5: v = math.nextafter(v, -math.inf)
    elif k < 0.78:
        v = rng.choice([-999.25, -999.25, math.nextafter(-999.25, 0), -999.2500001, -999.0, 999.25])
    elif k < 0.88:
        v = float(rng.choice([-1, 1]) * rng.randint(2 ** 53 - 4, 2 ** 60))
    else:
        v = rng.choice([-1, 1]) * rng.randint(0, 10 ** rng.randint(1, 9)) / 10.0 ** rng.randint(0, 9)
    x = np.dtype(dtype).type(v)
    if not np.isfinite(x):
        x = np.dtype(dtype).type(1.5)
    return float(x)     # exact widening


def _int_value(rng, dtype):
    import numpy as np
    info = np.iinfo(dtype)
    k = rng.random()
    if k < 0.2:
        return rng.choice([info.min, info.max, info.min + 1, info.max - 1, 0])
    if k < 0.5:
        return max(info.min, min(info.max, rng.randint(-200, 200)))
    b = rng.randint(1, info.bits)
    v = rng.randint(0, 2 ** b - 1)
    if info.min < 0 and rng.random() < 0.5:
        v = -v
    return max(info.min, min(info.max, v))


def gen_case(rng):
    import numpy as np
    nch = rng.choice([1, 2, 2, 3, 3, 4, 5, 6])
    nfr = rng.randint(1, 8)
    width = rng.choice([1, 2, 3, 4, 6, 8, 10, 12, 16, 24, rng.randint(1, 24)])
    d = rng.randint(0, 9)
    red = rng.choice(REDUCTIONS)
    chans, taken = [], set()
    for c in range(nch):
        ident = _ident(rng, taken); taken.add(ident)
        dtype = rng.choice(FLOATS + FLOATS + INTS)
        rank = rng.choice([1, 1, 1, 2, 3])
        if rank == 1:
            shape = [rng.choice([1, 1, 1, 2, 3, 5, 8])]
        else:
            shape = [rng.randint(1, 3) for _ in range(rank)]
        cnt = 1
        for s in shape: cnt *= s
        units = rng.choice(UNITS)
        while (ident.strip(), units) in (('TIME', 'HHMMSS'), ('DATE', 'D')):      # the reader's two text columns: not numeric data
            units = rng.choice(UNITS)
        ch = {'ident': ident, 'units': units, 'units_bytes': rng.random() < 0.2, 'long': rng.choice(['Depth', 'Gamma Ray', 'x', '', 'a:b', 'RHOB/Density']),
              'long_bytes': rng.random() < 0.2, 'dtype': dtype, 'shape': shape}
        vals = []
        if c == 0:
            # X axis: monotone with a step well above the print resolution (collisions are still detected afterwards)
            if dtype in FLOATS:
                start = rng.choice([0.0, 1000.0, -50.5, 2889.4, 1e6, rng.uniform(-1e4, 1e4)])
                step = rng.choice([-1, 1]) * rng.choice([0.5, 1.0, 0.1524, 10.0, 0.25, 2.0 ** -(d + 1) * 3])
                if d == 0: step = rng.choice([-1, 1]) * rng.choice([1.0, 2.5, 10.0, 1.5])
                for f in range(nfr):
                    base = start + f * step
                    vals.append([float(np.dtype(dtype).type(base)) for _ in range(cnt)])
            else:
                info = np.iinfo(dtype)
                step = rng.choice([1, 2, 5, 10])
                lo = rng.randint(max(info.min, -100), min(info.max, 100) - 10 * 8)
                if lo < info.min: lo = info.min
                for f in range(nfr):
                    vals.append([min(info.max, lo + f * step)] * cnt)
        else:
            for f in range(nfr):
                if dtype in FLOATS:
                    vals.append([_float_value(rng, d, dtype) for _ in range(cnt)])
                else:
                    vals.append([_int_value(rng, dtype) for _ in range(cnt)])
        ch['values'] = [[(float(v).hex() if dtype in FLOATS else int(v)) for v in fr] for fr in vals]
        chans.append(ch)
    names = [ch['ident'] for ch in chans]
    kind = rng.choice(['empty', 'all', 'some', 'some', 'some+absent', 'xonly', 'absent'])
    absent = ['ZZZZ', 'NOTHERE', names[0].lower() + 'q']
    absent = [a for a in absent if a not in names]
    if kind == 'empty': sub = []
    elif kind == 'all': sub = list(names)
    elif kind == 'some': sub = [n for n in names[1:] if rng.random() < 0.5] + ([names[0]] if rng.random() < 0.3 else [])
    elif kind == 'some+absent': sub = [n for n in names[1:] if rng.random() < 0.5] + absent[:rng.randint(1, len(absent))]
    elif kind == 'xonly': sub = [names[0]]
    else: sub = absent[:rng.randint(1, len(absent))]
    if kind == 'some' and not sub:
        kind = 'empty'
    if kind != 'empty' and rng.random() < 0.35:
        # requested names that only LOOK like a present name (stripped / padded / other case): they select nothing
        for n in rng.sample(names, rng.randint(1, len(names))):
            var = [v for v in _variants(rng, n) if v not in names]
            if var:
                sub.append(rng.choice(var))
        kind += '+variants'
    mode = rng.choice(['combined', 'combined', 'separate', 'curve+array'])
    ro = rng.random() < 0.3
    return {'readonly': ro, 'chans': chans, 'n_frames': nfr, 'red': red, 'subset': sub, 'kind': kind, 'width': width, 'dec': d, 'mode': mode}


# ----------------------------------------------------------------------------- implementation side

def _b(s, as_bytes):
    return s.encode('ascii') if as_bytes else s


STEP_KEYS = ('subset', 'kind', 'red', 'width', 'dec', 'mode')


def gen_history(rng):
    """One frame array written 2..4 times with different subsets / reductions / widths / formats / entry points, with writes
    of a second object in between: a list of cases, case i carrying the i earlier writes as its history."""
    base = gen_case(rng)
    while len(base['chans']) < 2:
        base = gen_case(rng)
    names = [ch['ident'] for ch in base['chans']]
    steps = []
    for k in range(rng.randint(2, 4)):
        kind = rng.choice(['empty', 'all', 'one', 'one', 'some', 'xonly', 'absent'])
        sub = {'empty': [], 'all': list(names), 'one': [rng.choice(names[1:])], 'xonly': [names[0]], 'absent': ['ZZZZ'],
               'some': [n for n in names[1:] if rng.random() < 0.5] or [names[-1]]}[kind]
        steps.append({'subset': sub, 'kind': 'hist-' + kind, 'red': rng.choice(REDUCTIONS), 'width': rng.choice([1, 4, 8, 12, 16, rng.randint(1, 24)]),
                      'dec': rng.randint(0, 9), 'mode': rng.choice(['combined', 'separate', 'curve+array']), 'obj': 0})
    out = []
    for i, st in enumerate(steps):
        hist = []
        for j in range(i):
            hist.append(steps[j])
            if rng.random() < 0.4:
                hist.append(dict(rng.choice(steps), obj=1))
        c = dict(base, **{k: st[k] for k in STEP_KEYS})
        c['history'] = hist
        out.append(c)
    return out


_KEEP = None        # replay keeps every FrameArray alive, so that object identities (id) are never reused between trials


def build(case):
    import numpy as np
    from TotalDepth.common import LogPass
    fa = LogPass.FrameArray('FA', 'frame array under test')
    for ch in case['chans']:
        fa.append(LogPass.FrameChannel(ch['ident'], _b(ch['long'], ch['long_bytes']), _b(ch['units'], ch['units_bytes']),
                                       tuple(ch['shape']), np.dtype(ch['dtype'])))
    fa.init_arrays(case['n_frames'])
    for ch, fch in zip(case['chans'], fa.channels):
        isf = ch['dtype'] in FLOATS
        for f, fr in enumerate(ch['values']):
            vals = [float.fromhex(v) for v in fr] if isf else fr
            fch.array[f] = np.array(vals, dtype=np.dtype(ch['dtype'])).reshape(tuple(ch['shape']))
    if case.get('readonly'):
        for fch in fa.channels:
            fch.array.flags.writeable = False       # a writer that only reads its input is not disturbed by this
    if _KEEP is not None:
        _KEEP.append(fa)
    return fa


class InputModified(Exception):
    """the writer changed the caller's frame array"""


def snapshot(fa):
    import numpy as np
    out = []
    for ch in fa.channels:
        a = ch.array
        out.append((str(a.dtype), a.shape, np.ma.getdata(a).tobytes(),
                    np.ma.getmaskarray(a).tobytes() if isinstance(a, np.ma.MaskedArray) else None, type(a).__name__))
    return out


def check_unchanged(fa, snap, what):
    import numpy as np
    for c, (ch, before) in enumerate(zip(fa.channels, snap)):
        now = snapshot_one = (str(ch.array.dtype), ch.array.shape, np.ma.getdata(ch.array).tobytes(),
                              np.ma.getmaskarray(ch.array).tobytes() if isinstance(ch.array, np.ma.MaskedArray) else None,
                              type(ch.array).__name__)
        if now != before:
            if now[2] != before[2]:
                a = np.frombuffer(before[2], dtype=before[0]).reshape(before[1]); b = np.ma.getdata(ch.array)
                f = next(i for i in range(len(a)) if a[i].tobytes() != b[i].tobytes())
                raise InputModified(f'{what} changed the values of channel {c} ({ch.ident!r}): frame {f} was {a[f].tolist()}, is now {b[f].tolist()}')
            raise InputModified(f'{what} changed channel {c} ({ch.ident!r}): {before[:2] + before[3:]} -> {now[:2] + now[3:]}')


def _write_on(fa, case):
    """one write of the frame array object `fa` with the options of `case` -> text"""
    from TotalDepth.common import Slice
    from TotalDepth.LAS.core import WriteLAS
    out = io.StringIO()
    fmt = '.%df' % case['dec']
    mode = case.get('mode', 'combined')
    if mode == 'combined':
        WriteLAS.write_curve_and_array_section_to_las(fa, case['n_frames'], case['red'], Slice.Slice(), set(case['subset']),
                                                      case['width'], fmt, out)
    elif mode == 'separate':
        # the incremental use described in write_array_section_data_to_las, every call with its own copy of the set
        WriteLAS.write_curve_section_to_las(fa, set(case['subset']), out)
        WriteLAS.write_array_section_header_to_las(fa, case['n_frames'], case['red'], Slice.Slice(), set(case['subset']),
                                                   case['width'], out)
        WriteLAS.write_array_section_data_to_las(fa, case['red'], set(case['subset']), case['width'], fmt, out)
    else:
        # curve section, then header + data sharing one set
        WriteLAS.write_curve_section_to_las(fa, set(case['subset']), out)
        WriteLAS.write_array_section_to_las(fa, case['n_frames'], case['red'], Slice.Slice(), set(case['subset']),
                                            case['width'], fmt, out)
    return out.getvalue()


def write(case):
    """Build the frame array and write it.  With `case['history']` (a list of earlier writes: option dicts with 'obj' 0 = the
    SAME FrameArray object, 1 = another object with the same channels) those writes are performed first - their output is
    checked when they are the last step of their own case - and the text returned is that of the final write on object 0:
    what a write produces must not depend on what was written before."""
    fa = build(case)
    snap = snapshot(fa)
    other = None
    for h in case.get('history', []):
        if h.get('obj', 0) == 1 and other is None:
            other = build(case)
        o = other if h.get('obj', 0) == 1 else fa
        _write_on(o, dict(case, **h))
        check_unchanged(o, snap, f"an earlier write with reduction {h['red']!r} subset {h['subset']!r}")
    text = _write_on(fa, case)
    check_unchanged(fa, snap, f"the write with reduction {case['red']!r}")     # the writer is read-only on its input
    return fa, text


def parse_text(text):
    """Our own reading of the three places (never the reader under test)."""
    lines = text.split('\n')
    if lines and lines[-1] == '':
        lines.pop()
    curve, head, rows, head_line = [], None, [], None
    state = None
    for ln in lines:
        if head is not None:
            rows.append(ln); continue
        if ln.startswith('~Curve'):
            state = 'C'; continue
        if ln.startswith('~A'):
            head_line = ln; head = ln[2:].split(); continue
        if ln.startswith('#'):
            continue
        if state == 'C':
            curve.append((ln[:ln.find('.')].strip(), ln))
    return curve, head, head_line, rows


def exact(v):
    """numpy scalar -> exact Fraction"""
    import numpy as np
    if isinstance(v, (np.integer, int)):
        return Fr(int(v))
    return Fr(float(v))


def ref_reduce(vals, red):
    """exact rational reduction of a list of Fractions (independent of numpy)"""
    if red == 'first': return vals[0]
    if red == 'min': return min(vals)
    if red == 'max': return max(vals)
    if red == 'mean': return sum(vals) / len(vals)
    s = sorted(vals); n = len(s)
    return s[n // 2] if n % 2 else (s[n // 2 - 1] + s[n // 2]) / 2


def expected_channels(case):
    names = [ch['ident'] for ch in case['chans']]
    if not case['subset']:
        return list(range(len(names)))
    return [c for c, n in enumerate(names) if c == 0 or n in case['subset']]


def _read_back(ctx, case, full_text):
    """The reader on the written file: through io.StringIO, or - `case['via']` - through a REAL file written exactly as the
    ToLAS tools do (`open(path, 'w')`, default encoding) and read by path (`LASRead(path)`) or as an opened text file."""
    import os
    from TotalDepth.LAS.core import LASRead
    via = case.get('via', 'stringio')
    if via == 'stringio':
        return LASRead.LASRead(io.StringIO(full_text), 'c10')
    path = os.path.join(ctx.scratch, 'c10_roundtrip.las')
    with open(path, 'w') as fh:
        fh.write(full_text)
    ctx.count('read_back_via_' + via)
    if via == 'path':
        return LASRead.LASRead(path)
    with open(path) as fh:
        return LASRead.LASRead(fh)


# characters beyond ASCII that names and units carry in real logs and that `open(path, 'w')` can write in this locale:
# Latin-1 (degree sign, micro sign, accented letters), Greek, a combining mark, a non-BMP character; none is white space
NON_ASCII_NAMES = ['T\u00b0C', '\u00b5SF', 'R\u03a9', 'D\u00e9pth', 'GR\u00df', '\u0394T', 'e\u0301tat', 'PHI\U0001d6fc', '\u00c5NG', 'na\u00efve', '\u03b3RAY', 'N\u00ba1']
NON_ASCII_UNITS = ['\u00b0C', '\u00b5s/ft', '\u03a9.m', 'g/cm\u00b3', 'm\u00b2', '\u00b0', '\u00b5s/m', 'k\u03a9', '\u212b', 'e\u0301', '\U0001d6fc/s', '\u00b0F']


def writable(s):
    """can `open(path, 'w')` of this process write the string (locale.getpreferredencoding(False))?"""
    import locale
    try:
        s.encode(locale.getpreferredencoding(False)); return True
    except (UnicodeEncodeError, LookupError):
        return False


def gen_file_case(rng):
    """A case read back through a real file; two thirds of them with non-ASCII names/units (not sent to the Lean drivers)."""
    case = gen_case(rng)
    case['via'] = rng.choice(['path', 'path', 'file'])
    if rng.random() < 0.67:
        case['non_ascii'] = True
        taken = set()
        for c, ch in enumerate(case['chans']):
            if rng.random() < 0.7:
                n = rng.choice([x for x in NON_ASCII_NAMES if writable(x) and x not in taken] or [ch['ident']])
                if any(n == s_ for s_ in case['subset']): pass
                case['subset'] = [n if s_ == ch['ident'] else s_ for s_ in case['subset']]
                ch['ident'] = n
            taken.add(ch['ident'])
            if rng.random() < 0.7:
                u = rng.choice(NON_ASCII_UNITS)
                if writable(u):
                    ch['units'], ch['units_bytes'] = u, False
            ch['long_bytes'] = False
    return case


def evaluate(ctx, case, want_corr=False):
    """The property oracle on the implementation alone. Returns None on failure, else data for the correspondence."""
    import numpy as np
    from TotalDepth.LAS.core import LASRead
    ctx.count('oracle_cases')
    W, D, red = case['width'], case['dec'], case['red']
    try:
        fa, text = write(case)
    except InputModified as e:
        ctx.fail(case, f'the writer modified the frame array it was given: {e}'); return None
    except Exception as e:                                      # noqa
        ctx.fail(case, f'writer raised {type(e).__name__}: {e}' + (' (read-only input arrays)' if case.get('readonly') else '')); return None
    # every expectation below is computed from the ORIGINAL values: a frame array built afresh from the case, never written
    fa = build(dict(case, readonly=False))
    exp = expected_channels(case)
    names = [ch['ident'] for ch in case['chans']]
    curve, head, head_line, rows = parse_text(text)
    cnames = [c[0] for c in curve]
    want_exact = [names[c] for c in exp]
    want = [n.strip() for n in want_exact]                      # what a reader of the text sees
    craw = [c[1][:c[1].find('.')] for c in curve]               # the writer prints f'{ident:<4}.' : exact identity, padded to 4
    if craw != [f'{n:<4}' for n in want_exact] or cnames != want:
        ctx.fail(case, f'curve section lists {craw}, expected {want_exact}'); return None
    if head != want:
        ctx.fail(case, f'~A heading lists {head}, expected {want_exact}'); return None
    if len(rows) != case['n_frames']:
        ctx.fail(case, f'{len(rows)} data rows for {case["n_frames"]} frames'); return None
    toks = [r.split() for r in rows]
    for f, t in enumerate(toks):
        if len(t) != len(want):
            ctx.fail(case, f'row {f} has {len(t)} fields {t!r}, expected {len(want)}'); return None
    # ---- printed value vs source value
    half = Fr(1, 2 * 10 ** D)
    npvals = {}
    for k, c in enumerate(exp):
        ch, arr = case['chans'][c], fa.channels[c].array
        isf = ch['dtype'] in FLOATS
        for f in range(case['n_frames']):
            frame = arr[f]
            nv = frame.flatten()[0] if red == 'first' else getattr(np, red)(frame)
            src = exact(nv)
            npvals[(f, c)] = nv
            # numpy against the exact rational reduction
            fl = [exact(x) for x in frame.flatten()]
            ref = ref_reduce(fl, red)
            if red in ('first', 'min', 'max') or (red == 'median' and len(fl) % 2 == 1 and isf):
                okred = src == ref
            else:
                eps = Fr(1, 2 ** 23) if ch['dtype'] == 'float32' else Fr(1, 2 ** 52)
                okred = abs(src - ref) <= 2 * (len(fl) + 2) * eps * max(abs(x) for x in fl)
            ctx.count('reduce_checked')
            if not okred:
                ctx.fail(case, f'numpy {red} of frame {f} channel {c} = {src}, exact {ref}'); return None
            tok = toks[f][k]
            try:
                printed = Fr(tok)
            except ValueError:
                ctx.fail(case, f'row {f} field {k} is not a number: {tok!r}'); return None
            if isf:
                bound = half
            elif red in ('mean', 'median'):
                bound = Fr(1, 2)
            else:
                bound = Fr(0)
            if abs(printed - src) > bound:
                ctx.fail(case, f'frame {f} channel {names[c]} ({ch["dtype"]}, {red}): printed {tok} differs from source '
                               f'{src} by more than {bound}'); return None
            if (not isf) and ('.' in tok):
                ctx.fail(case, f'integer channel printed with a decimal point: {tok!r}'); return None
    # ---- read back
    if len(set(want)) != len(want):
        ctx.count('stripped_names_collide_skipped_readback')       # 'GR' and 'GR  ' both written: one mnemonic for the reader
        return {'text': text, 'exp': exp, 'head_line': head_line, 'rows': rows, 'npvals': npvals, 'curve': [names[c] for c in exp], 'head': [names[c] for c in exp]}
    xt = [t[0] for t in toks]
    xvals = [float(t) for t in xt]
    collide = len(set(xvals)) != len(xvals)
    try:
        las = _read_back(ctx, case, HEADER + text)
    except Exception as e:                                      # noqa
        if collide and 'Duplicate Xaxis' in str(e):
            ctx.count('x_collision_skipped_readback')
            las = None
        else:
            ctx.fail(case, f'reader raised {type(e).__name__}: {e}'); return None
    if las is not None:
        rfa = las.frame_array
        if rfa is None:
            ctx.fail(case, 'reader found no array section'); return None
        got = [ch.ident for ch in rfa.channels]
        if got != want:
            ctx.fail(case, f'read-back channel names {got!r}, expected {want!r}'); return None
        gu = [ch.units for ch in rfa.channels]
        wu = [case['chans'][c]['units'] for c in exp]
        if gu != wu:
            ctx.fail(case, f'read-back units {gu!r}, expected {wu!r}'); return None
        if las.number_of_frames() != case['n_frames'] or any(len(ch.array) != case['n_frames'] for ch in rfa.channels):
            ctx.fail(case, f'read-back frame count {las.number_of_frames()}, expected {case["n_frames"]}'); return None
        for k, c in enumerate(exp):
            data = np.ma.getdata(rfa.channels[k].array)
            if data.dtype == object:
                ctx.fail(case, f'numeric channel {names[c]!r} (units {case["chans"][c]["units"]!r}) read back as a text column: {data[:, 0].tolist()!r}'); return None
            if data.shape != (case['n_frames'], 1):
                ctx.fail(case, f'read-back shape {data.shape}'); return None
            isf = case['chans'][c]['dtype'] in FLOATS
            for f in range(case['n_frames']):
                rb = float(data[f][0])
                printed = Fr(toks[f][k])
                src = exact(npvals[(f, c)])
                if rb.hex() != float(toks[f][k]).hex() and not (rb == 0 == float(toks[f][k])):
                    ctx.fail(case, f'frame {f} channel {names[c]}: read back {rb!r} ({rb.hex()}) is not float({toks[f][k]!r}) = {float(toks[f][k]).hex()}'); return None
                if not math.isfinite(rb) or abs(Fr(rb) - printed) > Fr(math.ulp(rb)) / 2:
                    ctx.fail(case, f'frame {f} channel {names[c]}: read back {rb!r} is not the double nearest to the printed {toks[f][k]}'); return None
                bound = (half if isf else (Fr(1, 2) if red in ('mean', 'median') else Fr(0))) + Fr(math.ulp(rb)) / 2
                if abs(Fr(rb) - src) > bound:
                    ctx.fail(case, f'frame {f} channel {names[c]}: read back {rb!r}, source {src}'); return None
                ctx.count('values_read_back')
    if len(exp) >= 2 and case['n_frames'] >= 2:
        ctx.nontriv((tuple((ch['dtype'], tuple(ch['shape'])) for ch in case['chans']), red, case['kind'], case.get('mode'), W, D, rows[0]))
    return {'text': text, 'exp': exp, 'head_line': head_line, 'rows': rows, 'npvals': npvals, 'curve': want_exact, 'head': want_exact}


# ----------------------------------------------------------------------------- correspondence

def _tok(s):
    return 's' + (s.encode('ascii').hex())


def _ratreq(v, width, dec, c):
    fr = exact(v)
    nz = 1 if (fr == 0 and math.copysign(1.0, float(v)) < 0) else 0
    return f'fmt {fr.numerator} {fr.denominator} {width} {dec} {c} {nz}'


def correspond(ctx, cases, results):
    import numpy as np
    # 1. channel lists + spec
    req, idx = [], []
    for i, (case, res) in enumerate(zip(cases, results)):
        if res is None: continue
        ids = ','.join(_tok(ch['ident']) for ch in case['chans'])
        S = ','.join(sorted(_tok(s) for s in case['subset'])) or '-'
        req.append(f'sel {ids} {S}'); idx.append(i)
    rep = ctx.lean(req)
    heads = {}
    for i, r in zip(idx, rep):
        case, res = cases[i], results[i]
        names = [ch['ident'] for ch in case['chans']]
        pos = {n: c for c, n in enumerate(names)}
        parts = dict(p.split('=') for p in r.split(' ')) if r.startswith('curve=') else {}
        small = {'idents': names, 'subset': case['subset']}
        impl = 'curve=%s head=%s nrow=%d' % (','.join(str(pos.get(n, -1)) for n in res['curve']),
                                            ','.join(str(pos.get(n, -1)) for n in res['head']), len(res['rows'][0].split()))
        model = 'curve=%s head=%s nrow=%d' % (parts.get('curve', '?'), parts.get('head', '?'),
                                             len([x for x in parts.get('rows', '').split(',') if x])) if parts else r
        ctx.corr('channels', small, impl, model)
        ctx.corr('spec', small, ','.join(map(str, res['exp'])), parts.get('spec', '?'))
        heads[i] = [int(x) for x in parts.get('head', '').split(',') if x]
    # 2. heading line, rows, tokenising
    req, meta = [], []
    for i in idx:
        case, res = cases[i], results[i]
        names = [ch['ident'] for ch in case['chans']]
        W, D, red = case['width'], case['dec'], case['red']
        cols = ','.join(f'{c}:{names[c].encode("ascii").hex()}' for c in heads[i] if c < len(names))
        req.append(f'head {W} {cols or "-"}'); meta.append(('head', i, None))
        for f, row in enumerate(res['rows']):
            n0 = len(req)
            for c in res['exp']:
                ch = case['chans'][c]
                v = res['npvals'][(f, c)]
                if ch['dtype'] in FLOATS:
                    req.append(_ratreq(v, W, D, c))
                elif red in ('mean', 'median'):
                    req.append(_ratreq(v, W, 0, c))
                else:
                    req.append(f'int {int(v)} {W} {c}')
            meta.append(('row', i, (f, n0, len(req))))
            req.append('split ' + (row.encode('ascii').hex() or '-')); meta.append(('split', i, f))
    rep = ctx.lean(req)
    pos = 0
    for kind, i, extra in meta:
        case, res = cases[i], results[i]
        if kind == 'head':
            ctx.corr('heading', {'idents': [ch['ident'] for ch in case['chans']], 'subset': case['subset'], 'width': case['width']},
                     res['head_line'].encode('ascii').hex(), rep[pos]); pos += 1
        elif kind == 'row':
            f, a, b = extra
            model = ''.join('' if r == '-' else r for r in rep[a:b])
            ctx.corr('row', {'case': case, 'frame': f}, res['rows'][f].encode('ascii').hex(), model)
            pos = b
        else:
            model = [bytes.fromhex(t).decode('ascii') for t in rep[pos].split(',') if t and t != '-']
            ctx.corr('split', {'line': res['rows'][extra]}, res['rows'][extra].split(), model); pos += 1
    # 3. reductions: model (exact) vs numpy
    req, meta = [], []
    for i in idx[:300]:
        case, res = cases[i], results[i]
        fa = build(case)
        for c in res['exp']:
            frame = fa.channels[c].array[0]
            fl = [exact(x) for x in frame.flatten()]
            req.append('red %s %s' % (case['red'], ','.join(f'{x.numerator}/{x.denominator}' for x in fl)))
            meta.append((case, c, fl, res['npvals'][(0, c)]))
    rep = ctx.lean(req)
    for (case, c, fl, nv), r in zip(meta, rep):
        src = exact(nv)
        small = {'red': case['red'], 'dtype': case['chans'][c]['dtype'], 'values': [str(x) for x in fl]}
        if case['red'] in ('first', 'min', 'max'):
            ctx.corr('reduce', small, f'{src.numerator}/{src.denominator}', r)
        else:
            try:
                n, dd = r.split('/'); m = Fr(int(n), int(dd))
                eps = Fr(1, 2 ** 23) if case['chans'][c]['dtype'] == 'float32' else Fr(1, 2 ** 52)
                ok = abs(src - m) <= 2 * (len(fl) + 2) * eps * max(abs(x) for x in fl)
            except Exception:                                   # noqa
                ok = False
            ctx.corr('reduce', small, 'close', 'close' if ok else f'far: numpy {src} model {r}')


def probe_format(ctx):
    """The assumed primitive: CPython format(float, '{w}.{d}f') and format(int, '{w}d') against the Rat model."""
    import numpy as np
    rng = ctx.rng
    req, impl, cases = [], [], []
    for _ in range(ctx.n(6000, 120000)):
        d = rng.randint(0, 9); w = rng.randint(1, 24); c = rng.randint(0, 3)
        dtype = rng.choice(FLOATS)
        v = _float_value(rng, d, dtype)
        x = np.dtype(dtype).type(v)
        req.append(_ratreq(x, w, d, c))
        impl.append(((' ' if c > 0 else '') + f'{x:{w}.{d}f}').encode('ascii').hex())
        cases.append({'value': float(x).hex(), 'dtype': dtype, 'width': w, 'dec': d, 'c': c})
    for _ in range(ctx.n(2000, 30000)):
        w = rng.randint(1, 24); c = rng.randint(0, 3)
        dtype = rng.choice(INTS)
        x = np.dtype(dtype).type(_int_value(rng, dtype))
        req.append(f'int {int(x)} {w} {c}')
        impl.append(((' ' if c > 0 else '') + f'{x:{w}d}').encode('ascii').hex())
        cases.append({'value': int(x), 'dtype': dtype, 'width': w, 'c': c})
    rep = ctx.lean(req)
    for cs, a, b in zip(cases, impl, rep):
        ctx.corr('format_primitive', cs, a, b)


def known_name_cases(ctx):
    """Channels named like a value (was F-C10-1 / C09-numeric-looking-mnemonic-retyped, repaired by keeping mnemonic and unit
    as text in line_to_sect_line): they must read back under their name with their values.  The value-placement part (NO/YES/0/1 aliasing a channel index) is repaired in
    /repo: wrong values or a reader exception on these cases are UNLISTED failures."""
    for name in ('NO', 'Yes', '123', '1E3', 'nan', '1'):
        case = {'chans': [{'ident': 'DEPT', 'units': 'm', 'units_bytes': False, 'long': 'Depth', 'long_bytes': False, 'dtype': 'float64',
                           'shape': [1], 'values': [[(1.0).hex()], [(2.0).hex()]]},
                          {'ident': name, 'units': 'api', 'units_bytes': False, 'long': 'x', 'long_bytes': False, 'dtype': 'float64',
                           'shape': [1], 'values': [[(5.0).hex()], [(6.0).hex()]]}],
                'n_frames': 2, 'red': 'first', 'subset': [], 'kind': 'empty', 'width': 8, 'dec': 2, 'name_as_value': True}
        run_known(ctx, case)


def run_known(ctx, case):
    from TotalDepth.LAS.core import LASRead
    ctx.count('oracle_cases')
    import numpy as np
    try:
        fa, text = write(case)
    except Exception as e:                                      # noqa
        ctx.fail(case, f'writer raised {type(e).__name__}: {e}'); return False
    want = [ch['ident'] for ch in case['chans']]
    curve, head, _, rows = parse_text(text)
    if [c[0] for c in curve] != want or head != want or [len(r.split()) for r in rows] != [len(want)] * case['n_frames']:
        ctx.fail(case, f'written text lists {[c[0] for c in curve]} / {head}, expected {want}'); return False
    try:
        las = LASRead.LASRead(io.StringIO(HEADER + text), 'c10')
        got = [ch.ident for ch in las.frame_array.channels]
        vals = [[float(x) for x in np.ma.getdata(ch.array)[:, 0]] for ch in las.frame_array.channels]
    except Exception as e:                                      # noqa
        ctx.fail(case, f'reader raised {type(e).__name__}: {e} on a channel named like a value (repaired class: must read)')
        return False
    wv = [[float(x) for x in fch.array[:, 0]] for fch in fa.channels]
    if vals != wv:
        ctx.fail(case, f'read-back values {vals!r}, expected {wv!r} (channel named like a value: repaired class)')
        return False
    if [repr(g) for g in got] != [repr(w) for w in want]:
        ctx.fail(case, f'read-back channel names {got!r}, expected {want!r} '
                       f'(a channel named like a value must read back under its name: repaired class)')
        return False
    return True


def _hx(t):
    return t.encode('ascii').hex() or '_'


def correspond_file(ctx, cases, results, limit):
    """End to end: (1) the WHOLE text of the model (`fileText`: curve table, comment lines, ~A line, rows) equals the text
    the real writers produced; (2) the C09 model of the reader applied to HEADER + that text returns what the real LASRead
    returns.  Reduced values are taken from numpy (the reductions have their own stream)."""
    import numpy as np
    from props import c09
    LR = c09._impl()
    req, meta = [], []
    for case, res in zip(cases, results):
        if res is None or len(req) >= limit:
            continue
        names = [ch['ident'] for ch in case['chans']]
        lines = res['text'].split('\n')
        a_at = next(i for i, ln in enumerate(lines) if ln.startswith('~A'))
        cm = [ln[1:] for ln in lines[3:a_at] if ln.startswith('#')]
        chans, skip = [], False
        fa = build(case)
        for ch, fch in zip(case['chans'], fa.channels):
            frs = []
            for f in range(case['n_frames']):
                frame = fch.array[f]
                nv = frame.flatten()[0] if case['red'] == 'first' else getattr(np, case['red'])(frame)
                if isinstance(nv, (float, np.floating)) and float(nv) == 0 and math.copysign(1.0, float(nv)) < 0:
                    skip = True                       # IEEE negative zero is not a rational (its `-0.00` has the `fmt` stream)
                fr = exact(nv)
                frs.append(f'{fr.numerator}/{fr.denominator}')
            descr = (ch['long'] + ' Dimensions ' + str(tuple(ch['shape'])))
            chans.append(':'.join([_hx(ch['ident']), _hx(ch['units']), _hx(descr), '1' if ch['dtype'] in INTS else '0', '|'.join(frs)]))
        if skip or any(not c_['ident'].isascii() for c_ in case['chans']):
            ctx.count('file_stream_skipped_negative_zero'); continue
        req.append('file %d %d %s %d %s %s %s' % (case['width'], case['dec'], case['red'], case['n_frames'],
                                                 ','.join(_hx(x) for x in case['subset']) or '-', ','.join(_hx(x) for x in cm) or '-', ';'.join(chans)))
        meta.append((case, res))
    rep = ctx.lean(req)
    texts = []
    for (case, res), r in zip(meta, rep):
        small = {k: case[k] for k in ('subset', 'width', 'dec', 'red', 'n_frames')}
        small['idents'] = [c_['ident'] for c_ in case['chans']]
        mt = bytes.fromhex(r).decode('ascii') if r not in ('bad-op', '-') else r
        ctx.corr('file_text', small, res['text'], mt)
        texts.append(HEADER + res['text'])
    # the C09 reader model on the whole file
    keep = []
    for t, (case, res) in zip(texts, meta):
        xs = [row.split()[0] for row in res['rows']]
        if len(set(xs)) != len({float(x) for x in xs}):
            ctx.count('file_stream_x_equal_doubles_skipped'); continue      # distinct decimals, same double: outside the exact-decimal model
        keep.append((t, case))
    rep = ctx.lean(['parse ' + t.encode('ascii').hex() for t, _ in keep], name='C09')
    for (t, case), r in zip(keep, rep):
        ms = c09.model_struct(r)
        if ms.get('err') == 'unsupported':
            ctx.count('file_stream_model_unsupported'); continue
        small = {'idents': [c_['ident'] for c_ in case['chans']], 'subset': case['subset'], 'width': case['width'], 'dec': case['dec'], 'text': t}
        ctx.corr('file_readback_model', small, c09.impl_parse(LR, t)[0], ms)


def readonly_input_cases(ctx, count):
    """The writer must not change (nor need to change) its input: multi-valued channels with NaN / inf / -0.0 values, masked
    arrays (as LASRead produces them) and read-only arrays, every reduction; only 'no exception, input unchanged' is checked
    here (NaN and masked cells have no meaningful read-back)."""
    import numpy as np
    rng = ctx.rng
    for _ in range(count):
        case = gen_case(rng)
        case['readonly'] = rng.random() < 0.5
        fa = build(dict(case, readonly=False))
        kind = rng.choice(['nan', 'masked', 'plain'])
        for fch in fa.channels[1:]:
            if fch.array.dtype.kind == 'f' and kind == 'nan':
                flat = fch.array.reshape(-1)
                for i in rng.sample(range(flat.size), max(1, flat.size // 4)):
                    flat[i] = rng.choice([np.nan, np.inf, -np.inf, -0.0])
            if kind == 'masked':
                m = np.zeros(fch.array.shape, dtype=bool)
                mf = m.reshape(-1)
                for i in rng.sample(range(mf.size), mf.size // 3):
                    mf[i] = True
                fch.array = np.ma.MaskedArray(fch.array, mask=m)
        if case['readonly']:
            for fch in fa.channels:
                np.ma.getdata(fch.array).flags.writeable = False
                fch.array.flags.writeable = False
        snap = snapshot(fa)
        small = {k: case[k] for k in ('red', 'subset', 'width', 'dec', 'mode', 'n_frames', 'readonly')}
        small.update(kind=kind, dtypes=[c['dtype'] for c in case['chans']], shapes=[c['shape'] for c in case['chans']])
        ctx.count('oracle_cases'); ctx.count('input_unchanged_' + kind + ('_readonly' if case['readonly'] else ''))
        for red in [case['red']] + [r for r in REDUCTIONS if r != case['red']]:
            try:
                _write_on(fa, dict(case, red=red))
                check_unchanged(fa, snap, f'the write with reduction {red!r}')
            except InputModified as e:
                ctx.fail(dict(case, red=red, special=kind), f'the writer modified the frame array it was given: {e}'); break
            except Exception as e:                                  # noqa
                ctx.fail(dict(case, red=red, special=kind), f'writer raised {type(e).__name__}: {e} on {kind} input'
                         + (' (read-only arrays)' if case['readonly'] else '')); break


def run(ctx):
    rng = ctx.rng
    total, chunk = ctx.n(12000, 200000), 4000
    have_model = getattr(ctx, 'model_available', True)
    for start in range(0, total, chunk):
        cases = [gen_case(rng) for _ in range(min(chunk, total - start))]
        for _ in range(len(cases) // 12):                       # write histories (about a quarter of the cases)
            cases += gen_history(rng)
        results = [evaluate(ctx, case) for case in cases]
        for case, res in list(zip(cases, results))[5:7]:
            if res is not None:
                ctx.sample({'idents': [c['ident'] for c in case['chans']], 'dtypes': [c['dtype'] for c in case['chans']],
                            'shapes': [c['shape'] for c in case['chans']], 'subset': case['subset'], 'reduction': case['red'],
                            'width': case['width'], 'decimals': case['dec'], 'heading': res['head_line'], 'first_row': res['rows'][0]})
        if have_model:
            correspond(ctx, cases, results)
            correspond_file(ctx, cases, results, ctx.n(700, 6000))
        ctx.count('cases', len(cases))
    # ---- the written text goes through a REAL file (open(path, 'w') / LASRead(path) or an opened text file), names and
    #      units with characters beyond ASCII included; oracle only (the Lean drivers take ASCII)
    for _ in range(ctx.n(1500, 12000)):
        case = gen_file_case(rng)
        res = evaluate(ctx, case)
        if res is not None and case.get('non_ascii'):
            ctx.count('non_ascii_file_roundtrips')
    readonly_input_cases(ctx, ctx.n(300, 3000))
    known_name_cases(ctx)
    if have_model:
        probe_format(ctx)
    else:
        ctx.note('model driver not available: correspondence skipped')
    ctx.note('excluded: NaN/inf values; identities read as numbers/yes/no by the reader are run separately (repaired class, they must read back under their name); '
             'int/bytes identities (API only) are described in notes/C10.md')


def replay(ctx, rec):
    global _KEEP
    _KEEP = []
    case = rec.get('case') or {}
    if 'chans' not in case:
        return True, 'nothing to replay (no concrete failing input was recorded)'
    n0 = len(ctx.failures)
    if case.get('name_as_value'):
        ok = run_known(ctx, case)
    else:
        ok = evaluate(ctx, case) is not None
    if len(ctx.failures) > n0:
        return False, ctx.failures[-1]['detail']
    if not case.get('name_as_value') and not case.get('history'):
        # The recorded write is fine on a fresh object in a fresh process.  It may have failed because of what was written
        # BEFORE it in the run (state kept between writes): try it after other writes of the same object.
        names = [ch['ident'] for ch in case['chans']]
        for sub in ([], names[:1], names[-1:], names):
            for mode in ('combined', 'separate'):
                prior = {'subset': sub, 'kind': 'replay-prior', 'red': case['red'], 'width': case['width'], 'dec': case['dec'], 'mode': mode, 'obj': 0}
                if evaluate(ctx, dict(case, history=[prior])) is None:
                    return False, (f'holds on a fresh FrameArray, FAILS after an earlier write of the same object with subset {sub!r} '
                                   f'({mode}): ' + ctx.failures[-1]['detail'])
    return True, 'curve section, heading, rows and read-back values agree with the source'
