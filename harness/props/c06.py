"""C06 — LIS log pass frame sets are exact; any sub-selection is a sub-matrix.

Anchors: LIS/core/FileIndexer.py, LogPass.py, FrameSet.py, Type01Plan.py, Rle.py, LogiRec.py (+ common/Rle.py).
"""
import io, itertools, json, logging, types
from fractions import Fraction

CLAIM = {
 'text': ('Lean 4 theorems about a transcription of Type01Plan.FrameSetPlan / RLEType01 / LogPass / FrameSet / FileIndex. '
          'General (unbounded) results: events_cover + events_inside_record (genEvents reads exactly the indirect word and '
          'the selected channels of the selected frames of a record, in order, inside the record); rle_lookup + '
          'index_data_record (frame -> record position and offset; records appended with whole frame counts); '
          'index_lists_all; setFrameSet_values (direct X, ANY number of data records at increasing positions, every '
          'slice/step, EVERY channel list: the load succeeds, the frame set holds the sorted distinct requested channels '
          'plus X, and row i is exactly the words of those channels of frame start+i*step, i.e. the sub-matrix of the '
          'full frame set; via the grouping/sorted-order lemma for _retFrameSetMap, induction over the map entries and '
          'the (chFrom, chTo) run labelling of every read event against setFrameBytes); reads_inside_selected_records (any channels, direct or indirect X: every seek/read of a '
          'successful load lies inside a record that holds a requested frame); setFrameSet_history_independent + '
          'setFrameSet_after_any_load; implied X for EVERY indirect-X log pass, slice and non-empty channel selection: '
          'implied_x_rule (exact closed form of the implied X vector: record X word for offset 0, X word + a*spacing in '
          'the first loaded record, previous loaded X + a*spacing in later records = the F7 rule, then step*spacing per '
          'frame), implied_x_partial / implied_x_step1 (X = x0 + frame*spacing whenever every later record is entered at '
          'offset 0, in particular for step 1), implied_x_wrong_iff (with non-zero spacing the X is wrong EXACTLY for the '
          'frames of later records entered at an offset > 0: the F7 class predicate is a theorem); '
          'kernel-evaluated witnesses incl. implied_x_f7_witness. All clauses of the property are now covered by general '
          'theorems about the model (integer X arithmetic); the model is tied to the code by the '
          'correspondence of the model with the code on generated LIS files (index entries, loaded words, implied X '
          'vector, file operation trace, genEvents tuples) and by the property oracle evaluated on the implementation '
          'alone against the generator\'s ground truth.'),
 'note': ('Trusted: Lean kernel; hand-written model as far as compared on the run; physical record layer (C05) and '
          'numeric decoding of representation codes (C07) are used, not verified, here: channel values are compared as '
          'raw words decoded on both sides by the same RepCode.readBytes. In the Lean model X values are integers; '
          'floating point X axes are checked by the oracle and a float64 reference transcription only; the dtype of the '
          'returned matrix and implied-X vector (float64) is checked on every load.'),
 'technique': 'Lean 4 proof (structural induction, omega, decide) + model-implementation correspondence',
 'design_ref': 'DESIGN.md section 6 C06',
}
RULE = ('LIS files built from random abstract log-pass descriptions (1..6, one in four up to 20, channels of rep codes 49/50/56/66/68/70/73/77/79 '
        'with samples and bursts, explicit or indirect X, up/down/time, regular / short-last / irregular frames per record, '
        'type 0 and type 1 passes, interleaved passes, delimiters, tables, other records) under random physical layouts '
        '(record length 16..65535, trailers, TIF markers); plus single-pass files with FLOATING POINT X axes (X word in rep code 68/50/49, spacing 0.1, 0.15, 1/3, 0.1524 ... at large X, implied and explicit); per log pass a sequence of 2-5 loads with random slices and '
        'channel subsets on the same LogPass object; plus an exhaustive small scope of FrameSetPlan.genEvents. A load case '
        'is non-trivial when it selects >= 2 frames from > 1 record or a proper channel subset; distinct by '
        '(channel shapes, frames per record, slice, channel list).')
ASSUMPTIONS = ['model side: X axis values and frame spacing are integers below 2**23 in magnitude (float64 arithmetic exact, the '
               'Lean model keeps X in Int). Floating point X axes (rep codes 68/50/49, fine and non-dyadic spacings such as '
               '0.1, 0.15, 1/3 at X of 1000..100000) are ORACLE-ONLY: the implied X of every loaded frame is compared (a) '
               'with the exact rational "recorded X of the frame\'s record + offset*spacing" within (frames+4)*2**-44 relative '
               '(a few float64 ulp per operation, 2**20 below single precision) and (b) bit for bit with a Python '
               'transcription of the code\'s float64 expression (repeated addition X[k]=X[k-1]+step*spacing; stream '
               'implied_x_float); with non-dyadic spacings a sub-selection is NOT bit-identical to the same rows of the full '
               'load even in the unchanged code (x+0.1+0.1 != x+0.2), so that comparison is made through (a)',
               'frame spacing units equal depth units (no Units.convert)',
               'slice members and channel indices are non-negative; slice stop within the frame count is judged, '
               'beyond it only compared with the model',
               'dipmeter representation codes 130/234 and zero-size / zero-sample channels are not generated',
               'the physical layer delivers the logical records (C05)']
TRUSTED = ['modelled, not verified: File/PhysRec logical-record reading (positions and bytes are taken from the generator), '
           'RepCode.readBytes numeric decoding (applied identically to both sides), numpy float64 storage']

KIND = {'IndexTable': 'TB', 'IndexNone': 'NO', 'IndexUnknownInternalFormat': 'UF', 'IndexFileHead': 'FH',
        'IndexFileTail': 'FT', 'IndexTapeHead': 'TH', 'IndexTapeTail': 'TT', 'IndexReelHead': 'RH',
        'IndexReelTail': 'RT', 'IndexLogPass': 'LP'}
F_STEPPED = 'F7-lis-implied-x-stepped-slice'
F_EMPTY = 'C06-indirect-x-empty-channel-list'
ANCHOR_FILES = ['src/TotalDepth/LIS/core/FileIndexer.py', 'src/TotalDepth/LIS/core/LogPass.py',
                'src/TotalDepth/LIS/core/FrameSet.py', 'src/TotalDepth/LIS/core/Type01Plan.py',
                'src/TotalDepth/LIS/core/Rle.py', 'src/TotalDepth/common/Rle.py', 'src/TotalDepth/LIS/core/LogiRec.py']
ERRMAP = {'IndexError': 'indexError', 'ExceptionLogPass': 'logPass', 'ZeroDivisionError': 'zeroDiv',
          'ExceptionFrameSet': 'frameSet', 'ExceptionFrameSetPlanOverrun': 'overrun', 'ExceptionFrameSetPlan': 'fracFrames',
          'ExceptionFrameSetPlanNegLen': 'negLen', 'ExceptionFileRead': 'fileRead', 'ExceptionLogPassCtor': 'logPassCtor',
          'ExceptionLr': 'lr', 'ExceptionDatumSpecBlock': 'dsb', 'ExceptionCbEngValInit': 'cbInit',
          'AssertionError': 'assertion', 'TypeError': 'typeError', 'ExceptionRepCodeUnknown': 'repCode',
          'ExceptionRepCodeRead': 'fileRead'}


def _mods():
    from TotalDepth.LIS.core import File, FileIndexer, LogPass, RepCode, Type01Plan
    return File, FileIndexer, LogPass, RepCode, Type01Plan


def _gen():
    from gen import lislog
    return lislog


class CountingBytesIO(io.BytesIO):
    """io.BytesIO that records every read as (position, bytes returned)."""
    def __init__(self, b):
        super().__init__(b)
        self.reads = []

    def read(self, n=-1):
        pos = self.tell()
        b = super().read(n)
        self.reads.append((pos, len(b)))
        return b


class FileProxy:
    """What LogPass.setFrameSet sees: logs the logical-record level calls, delegates to the real File.FileRead."""
    def __init__(self, f):
        self._f, self.log, self._ofs = f, [], 0
        self.fileId = f.fileId

    def seekLr(self, off):
        self.log.append('S%d' % off); self._ofs = 0
        return self._f.seekLr(off)

    def readLrBytes(self, n=-1):
        b = self._f.readLrBytes(n)
        self.log.append('R%d+%d' % (self._ofs, n)); self._ofs += len(b) if b is not None else 0
        return b

    def skipLrBytes(self, n=-1):
        r = self._f.skipLrBytes(n)
        self.log.append('K%d' % n); self._ofs += r
        return r


def err_name(e):
    return 'err ' + ERRMAP.get(type(e).__name__, type(e).__name__)


def num_str(v):
    """canonical text of an X value: integer when integral, else exact hex"""
    if v is None:
        return 'N'
    f = float(v)
    return str(int(f)) if f == int(f) else f.hex()


def frac_str(fr):
    return 'N' if fr is None else '%d/%d' % (fr.numerator, fr.denominator)


def pow2(n):
    return n > 0 and n & (n - 1) == 0


# ------------------------------------------------------------------ implementation side

def impl_index(File, FileIndexer, data):
    stream = CountingBytesIO(data)
    f = File.FileRead(stream, 'C06', False)
    idx = FileIndexer.FileIndex(f)
    return stream, f, idx


def entry_str(e):
    kind = KIND.get(type(e).__name__, type(e).__name__)
    s = '%d:%d:%s' % (e.tell, e.lrType, kind)
    if kind == 'TB':
        v = e.name
        if isinstance(v, (bytes, bytearray)):
            s += ':b' + (bytes(v).hex() or '-')
        elif v is None:
            s += ':n'
        else:
            s += ':i%d' % int(v) if float(v) == int(v) else ':f' + float(v).hex()
    elif kind == 'LP':
        lp = e.logPass
        rle = lp.rle
        try:
            xl = rle.xAxisLastFrame()
            sp = rle.frameSpacing() if len(rle) > 0 else None
        except Exception as err:    # the implementation, not the harness, failed: part of its canonical output
            return s + ':EXC=' + type(err).__name__
        items = ';'.join('%d,%d,%d,%d' % (r.datum, r.stride, r.repeat, r.numFrames) for r in rle.rle_items)
        plan = lp.type01Plan
        s += ':n=%d:x0=%s:xl=%s:sp=%s:rle=%s:plan=%d,%s' % (
            lp.totalFrames, num_str(rle.xAxisFirst()),
            'N' if xl is None else frac_str(Fraction(float(xl))), 'N' if sp is None else frac_str(Fraction(float(sp))),
            items, plan.indirectSize, ','.join(str(plan.channelSize(i)) for i in range(plan.numChannels)))
    return s


def impl_load(lp, f, stream, sl, chans):
    """one LogPass.setFrameSet; returns (canonical text parts | error text, raw results for the oracle)"""
    proxy = FileProxy(f)
    n0 = len(stream.reads)
    arg_sl = None if sl is None else slice(*sl)
    arg_ch = None if chans is None else list(chans)
    try:
        lp.setFrameSet(proxy, arg_sl, arg_ch)
    except Exception as e:   # noqa
        import traceback
        return {'err': err_name(e), 'reads': stream.reads[n0:], 'ops': proxy.log, 'tb': traceback.format_exc()}
    fs = lp.frameSet
    out = {'err': None, 'n': fs.numFrames, 'ch': list(fs.genExtChIndexes()), 'reads': stream.reads[n0:], 'ops': proxy.log}
    out['M'] = [[float(v) for v in fs.frames[i]] for i in range(fs.numFrames)]
    out['X'] = None if fs._indrXVector is None else [float(v) for v in fs._indrXVector]
    out['Xapi'] = [float(fs.xAxisValue(i)) for i in range(fs.numFrames)]
    out['dtypes'] = (str(fs.frames.dtype), None if fs._indrXVector is None else str(fs._indrXVector.dtype),
                     type(fs.xAxisValue(0)).__name__ if fs.numFrames else None)
    # per (sample, burst) access of the first and last loaded frame: {(row, ch): [[value per burst] per sample]}
    cells = {}
    for i in sorted({0, fs.numFrames - 1}) if fs.numFrames else []:
        for c in out['ch']:
            cells[(i, c)] = [[float(fs.value(i, c, 0, sa, bu)) for bu in range(fs.numBursts(c, 0))] for sa in range(fs.numSamples(c, 0))]
    out['cells'] = cells
    return out


def load_text(res):
    if res['err']:
        return 'L ' + res['err']
    rows = ';'.join(','.join(v.hex() for v in r) for r in res['M'])
    xs = '' if res['X'] is None else ','.join(num_str(v) for v in res['X'])
    return 'L ok n=%d ch=%s M=%s X=%s ops=%s' % (res['n'], ','.join(map(str, res['ch'])), rows, xs, ','.join(res['ops']))


# ------------------------------------------------------------------ model side

def case_line(bf, loads):
    recs = ' '.join('%d:%s' % (t, l[2].hex()) for t, l in zip(bf.tells, bf.lrs))
    ls = []
    for (pi, sl, ch) in loads:
        s = 'N' if sl is None else '%d,%d,%d' % (sl[0] or 0, sl[1], sl[2] or 0)
        c = 'N' if ch is None else (','.join(map(str, ch)) or '-')
        ls.append('%d;%s;%s' % (pi, s, c))
    return 'case R ' + recs + ' L ' + ' '.join(ls)


def model_entry_canon(tok):
    """reduce the model's exact fractions; returns (text, xl Fraction|None, sp Fraction|None)"""
    parts = tok.split(':')
    if len(parts) > 3 and parts[2] == 'LP':
        out = []
        for p in parts:
            if p.startswith('xl=') or p.startswith('sp='):
                v = p[3:]
                if v != 'N':
                    a, b = v.split('/')
                    v = frac_str(Fraction(int(a), int(b)))
                p = p[:3] + v
            out.append(p)
        return ':'.join(out)
    return tok


def align_fractions(impl_tok, model_tok):
    """The implementation divides in float64: when the exact quotient is not a dyadic rational of small size the float
    result is only an approximation. Such fields are not compared (replaced by the model's text)."""
    ip, mp = impl_tok.split(':'), model_tok.split(':')
    if len(ip) != len(mp):
        return impl_tok, 0
    skipped = 0
    for i, (a, b) in enumerate(zip(ip, mp)):
        if (b.startswith('xl=') or b.startswith('sp=')) and b[3:] != 'N' and a[3:] != 'N':
            den = int(b[3:].split('/')[1])
            if not pow2(den) or den > 2**20:
                ip[i] = b; skipped += 1
    return ':'.join(ip), skipped


def model_load_canon(RepCode, sec, chans_spec):
    """decode the raw words of the model's matrix with the repo's RepCode.readBytes (same function as the implementation)"""
    if not sec.startswith('L ok'):
        return sec
    f = dict(p.split('=', 1) for p in sec.split(' ')[2:])
    ch = [int(c) for c in f['ch'].split(',')] if f['ch'] else []
    cols = []
    for c in ch:
        size, samples, rc = chans_spec[c]
        from gen.lislog import RC_SIZE
        cols += [rc] * (size // RC_SIZE[rc])
    rows = []
    for r in (f['M'].split(';') if f['M'] != '' or int(f['n']) > 0 else []):
        cells = r.split(',') if r else []
        vals = []
        for rc, w in zip(cols, cells):
            if w == 'U':
                vals.append('U')
            else:
                from gen.lislog import RC_SIZE
                vals.append(float(RepCode.readBytes(rc, int(w).to_bytes(RC_SIZE[rc], 'big'))).hex())
        if len(cells) != len(cols):
            vals.append('shape-mismatch')
        rows.append(','.join(vals))
    return 'L ok n=%s ch=%s M=%s X=%s ops=%s' % (f['n'], f['ch'], ';'.join(rows), f['X'], f['ops'])


# ------------------------------------------------------------------ oracle (implementation alone)

def selected_frames(sl, total):
    if sl is None:
        return list(range(total))
    return list(range(sl[0] or 0, sl[1], sl[2] or 1))


def f7_rule(lp, frames, step):
    """X values the EXTRAPOLATE branch of LogPass.setFrameSet produces, and the indexes that belong to the F7 class
    (indirect X, selected-record ordinal > 0, first selected frame of that record has offset > 0)."""
    out, cls = [], []
    groups = []
    for fr in frames:
        r, off = lp.record_of(fr)
        if groups and groups[-1][0] == r:
            groups[-1][1].append(off)
        else:
            groups.append((r, [off]))
    for gi, (r, offs) in enumerate(groups):
        s = offs[0]
        in_class = gi > 0 and s > 0
        base = (out[-1] if in_class else lp.x[lp.rec_first[r]]) + s * lp.step_x
        for j in range(len(offs)):
            out.append(base + j * step * lp.step_x); cls.append(in_class)
    return out, cls


def ref_implied_x(lp, frames, step):
    """Transcription of the float64 arithmetic of LogPass.setFrameSet / FrameSet for the implied X vector:
    X[first frame of a record] = record X word (offset 0) or (X just read | previous loaded X) + offset*spacing;
    then X[k] = X[k-1] + step*spacing, every product and sum rounded to float64 (repeated addition)."""
    sp = float(lp.step_x)
    out, groups = [], []
    for fr in frames:
        r, off = lp.record_of(fr)
        if groups and groups[-1][0] == r:
            groups[-1][1].append(off)
        else:
            groups.append((r, [off]))
    for gi, (r, offs) in enumerate(groups):
        xrec = float(lp.x[lp.rec_first[r]])
        s = offs[0]
        if s == 0:
            x = xrec
        else:
            x = (xrec if gi == 0 else out[-1]) + s * sp
        out.append(x)
        for _ in offs[1:]:
            x = x + step * sp
            out.append(x)
    return out


def oracle_load(ctx, RepCode, bf, pi, sl, chans, res, case, prior_bad_ctor=False):
    """the property on one load: sub-matrix of the generated values, X of every frame, reads inside the data records"""
    from gen.lislog import RC_SIZE
    p = bf.passes[pi]
    lp = p['lp']
    total = lp.total
    ctx.count('oracle_cases')
    judged = sl is None or ((sl[0] or 0) >= 0 and sl[1] <= total)
    nch = len(lp.chans)
    ch_ok = chans is None or all(0 <= c < nch for c in chans)
    if not (judged and ch_ok):
        return None
    frames = selected_frames(sl, total)
    if res['err']:
        return ctx.fail(case, 'setFrameSet raised %s for an in-range selection%s' % (
            res['err'], ' (after an earlier failed load on the same LogPass)' if prior_bad_ctor else ''))
    if chans is None:
        cols = list(range(nch))
    else:
        cols = sorted(set(list(chans) + ([] if lp.indirect else [0])))
    bad = None
    if res['n'] != len(frames) or len(res['M']) != len(frames):
        bad = 'frame count %d, expected %d' % (res['n'], len(frames))
    elif res['ch'] != cols:
        bad = 'channels %s, expected %s' % (res['ch'], cols)
    else:
        for i, fr in enumerate(frames):
            want = [float(RepCode.readBytes(lp.chans[c][2], w.to_bytes(RC_SIZE[lp.chans[c][2]], 'big')))
                    for c in cols for w in lp.words[fr][c]]
            got = res['M'][i]
            if len(got) != len(want) or any(a.hex() != b.hex() for a, b in zip(got, want)):
                k = next((k for k, (a, b) in enumerate(zip(got, want)) if a.hex() != b.hex()), min(len(got), len(want)))
                bad = 'frame %d (loaded row %d) value %d: got %s, recorded %s' % (fr, i, k, got[k:k + 1], want[k:k + 1])
                break
    if not bad:
        for (i, c), got in res['cells'].items():
            size, samples, rc = lp.chans[c]
            bursts = size // (RC_SIZE[rc] * samples)
            ws = lp.words[frames[i]][c]
            want = [[float(RepCode.readBytes(rc, ws[sa * bursts + bu].to_bytes(RC_SIZE[rc], 'big'))) for bu in range(bursts)] for sa in range(samples)]
            if [[v.hex() for v in r] for r in got] != [[v.hex() for v in r] for r in want]:
                bad = 'frame %d channel %d per (sample, burst) values %s, recorded %s' % (frames[i], c, got, want)
                break
    if bad:
        return ctx.fail(case, bad)
    # documented storage: float64 matrix, float64 implied-X vector (FrameSet.NUMPY_DATA_TYPE)
    dt = res.get('dtypes')
    if dt and (dt[0] != 'float64' or (lp.indirect and dt[1] != 'float64') or (not lp.indirect and dt[1] is not None)
               or (dt[2] is not None and dt[2] not in ('float64', 'float'))):
        return ctx.fail(case, 'array types (matrix, implied X vector, xAxisValue) = %s, documented float64' % (dt,))
    # X axis of every loaded frame
    xs = res['Xapi']
    step = (sl[2] or 1) if sl else 1
    if lp.float_x and lp.indirect and chans != [] and res['X'] is not None:
        # model side for floating point X: the Python transcription of the code's float64 expression (bit exact)
        ctx.corr('implied_x_float', case, [v.hex() for v in res['X']], [v.hex() for v in ref_implied_x(lp, frames, step)])
    if lp.float_x:
        # recorded X of the frame's record + offset * spacing, exactly (Fractions); float64 arithmetic of the code may be
        # off by a few ulp per operation -- far below single precision
        def close(a, b):
            return abs(Fraction(a) - b) <= Fraction(len(frames) + 4, 2 ** 44) * max(1, abs(b))
        same = lambda a, b: close(a, b)
    else:
        same = lambda a, b: a == float(b)
    want_x = [lp.x[fr] for fr in frames]
    finding = None
    dev = [i for i, (a, b) in enumerate(zip(xs, want_x)) if not same(a, b)]
    if dev or len(xs) != len(want_x):
        i0 = dev[0] if dev else 0
        detail = 'X of loaded frame %d (frame %d): got %r, recorded X + offset*spacing = %r' % (
            i0, frames[i0] if frames else -1, xs[i0] if i0 < len(xs) else None, float(want_x[i0]) if want_x else None)
        if lp.indirect and chans == []:
            finding = F_EMPTY     # no channel selected: no event is generated, the implied X vector stays uninitialised
        elif lp.indirect and dev:
            rule, cls = f7_rule(lp, frames, step)
            if all(cls[i] and same(xs[i], rule[i]) for i in dev) and step > 1:
                finding = F_STEPPED
        ctx.fail(case, detail, finding=finding)
        if finding is None:
            return
    # reads stay inside the data records that contain requested frames
    allowed = sorted({bf.extents[p['data_lrs'][lp.record_of(fr)[0]]] for fr in frames})
    for pos, n in res['reads']:
        if n == 0:
            continue
        if not any(a <= pos and pos + n <= b for a, b in allowed):
            return ctx.fail(case, 'read of %d bytes at %d outside the data records of the requested frames %s' % (n, pos, allowed[:4]))
    recs = {lp.record_of(fr)[0] for fr in frames}
    if (len(frames) >= 2 and len(recs) > 1) or (chans is not None and len(cols) < nch):
        ctx.nontriv((tuple(map(tuple, lp.chans)), tuple(lp.fpr), lp.indirect, tuple(sl) if sl else None, tuple(chans) if chans is not None else None))
    return None


def oracle_index(ctx, bf, idx, case):
    """every header/trailer/table at its true position with type (and name) in file order; every log pass with its frame
    count, first X and (evenly spaced over more than one record) last X"""
    ctx.count('oracle_cases')
    want = []
    for i, (kind, t, b, info) in enumerate(bf.lrs):
        if kind == 'delim':
            want.append((bf.tells[i], t, None))
        elif kind == 'table':
            rc, name = info
            want.append((bf.tells[i], t, name.encode('ascii') if rc == 65 else ('num', rc, name)))
        elif kind == 'dfsr':
            want.append((bf.tells[i], 64, None))
    got = []
    for e in idx.genAll():
        if e.lrType in (128, 129, 130, 131, 132, 133, 64):
            got.append((e.tell, e.lrType, None))
        elif e.lrType in (32, 34, 39):
            got.append((e.tell, e.lrType, getattr(e, 'name', ('no-name', type(e).__name__))))
    if len(got) != len(want):
        return ctx.fail(case, 'index lists %d header/trailer/table/format records, file has %d' % (len(got), len(want)))
    from gen import lislog
    for g, w in zip(got, want):
        if g[:2] != w[:2]:
            return ctx.fail(case, 'index entry (tell,type) %s, true %s' % (g[:2], w[:2]))
        if isinstance(g[2], tuple) and g[2][:1] == ('no-name',):
            return ctx.fail(case, 'table record at %d indexed as %s without a name' % (g[0], g[2][1]))
        if isinstance(w[2], bytes) and g[2] != w[2]:
            return ctx.fail(case, 'table at %d named %r, true %r' % (g[0], g[2], w[2]))
        if isinstance(w[2], tuple):
            _, rc, word = w[2]
            # numeric names were generated from integers
            try:
                v = g[2]
                ok = (not isinstance(v, (bytes, bytearray))) and float(v) == int(v) and lislog.enc_int(rc, int(v)) == word
            except Exception:  # noqa
                ok = False
            if not ok:
                return ctx.fail(case, 'table at %d first value %r does not decode the recorded word %d (rc %d)' % (g[0], g[2], word, rc))
    lps = list(idx.genLogPasses())
    if len(lps) != len(bf.passes):
        return ctx.fail(case, '%d log passes found, file has %d' % (len(lps), len(bf.passes)))
    for e, p in zip(lps, bf.passes):
        lp, L = p['lp'], e.logPass
        if e.tell != bf.tells[p['dfsr_lr']]:
            return ctx.fail(case, 'log pass at %d, true %d' % (e.tell, bf.tells[p['dfsr_lr']]))
        if L.totalFrames != lp.total:
            return ctx.fail(case, 'log pass at %d: %d frames, true %d' % (e.tell, L.totalFrames, lp.total))
        if lp.total and float(L.xAxisFirstVal) != float(lp.x[0]):
            return ctx.fail(case, 'log pass at %d: first X %s, true %s' % (e.tell, L.xAxisFirstVal, lp.x[0]))
        if lp.float_x and lp.total > 1 and sum(1 for n in lp.fpr if n) > 1:
            # (X of last record - X of first record) / (frames before the last record), continued to the last frame
            r_last = max(r for r, n in enumerate(lp.fpr) if n)
            xl = lp.x[lp.rec_first[r_last]]
            want_last = xl + (lp.fpr[r_last] - 1) * (xl - lp.x[0]) / (lp.total - lp.fpr[r_last])
            got_last = L.xAxisLastVal
            if got_last is None or abs(Fraction(float(got_last)) - want_last) > Fraction(1, 10 ** 9) * max(1, abs(want_last)):
                return ctx.fail(case, 'log pass at %d: last X %s, from the recorded X values %s' % (e.tell, got_last, float(want_last)))
        if lp.total > 1 and lp.evenly_spaced and sum(1 for n in lp.fpr if n) > 1:
            if L.xAxisLastVal is None or float(L.xAxisLastVal) != float(lp.x[-1]):
                return ctx.fail(case, 'log pass at %d: last X %s, true %s' % (e.tell, L.xAxisLastVal, lp.x[-1]))
        # data record positions known to the log pass
        seeks = []
        nfr = lp.total
        for fr in range(nfr):
            try:
                seeks.append(L.rle.tellLrForFrame(fr))
            except Exception as ex:  # noqa
                return ctx.fail(case, 'frame %d of the log pass at %d cannot be located: %s' % (fr, e.tell, err_name(ex)))
        want_seeks = [(bf.tells[p['data_lrs'][lp.record_of(fr)[0]]], lp.record_of(fr)[1]) for fr in range(nfr)]
        if seeks != want_seeks:
            k = next(k for k, (a, b) in enumerate(zip(seeks, want_seeks)) if a != b)
            return ctx.fail(case, 'frame %d located at (record tell, offset) %s, true %s' % (k, seeks[k], want_seeks[k]))
    ctx.nontriv(('index', tuple(t for _, t, _, _ in bf.lrs)))
    return None


# ------------------------------------------------------------------ case generation

# most log passes have 1..6 channels; one in four may have up to 12 or 20, so that channel subsets reach indices >= 8
# (where the iteration order of a Python set of small ints stops being ascending: round-6 seed C06-12)
WIDE_CH = [6, 6, 6, 6, 6, 6, 12, 20]

def random_loads(rng, bf, nmax=5):
    loads = []
    for pi, p in enumerate(bf.passes):
        lp = p['lp']
        total, nch = lp.total, len(lp.chans)
        for _ in range(rng.randint(2, nmax)):
            r = rng.random()
            if r < 0.15:
                sl = None
            else:
                step = rng.choice([None, 0, 1, 1, 2, 2, 3, 4, 5, 7, rng.randint(1, max(1, total))])
                a = rng.choice([None, 0, 0, rng.randint(0, max(0, total - 1)), rng.randint(0, max(0, total - 1))])
                b = rng.randint(0, total) if rng.random() < 0.5 else total
                if rng.random() < 0.04:
                    b = total + rng.randint(1, 3)
                sl = [a, b, step]
            r = rng.random()
            if r < 0.3:
                ch = None
            else:
                k = rng.randint(1, nch)
                ch = [rng.randrange(nch) for _ in range(k)] if rng.random() < 0.3 else sorted(rng.sample(range(nch), k))
                if nch > 8 and rng.random() < 0.5:
                    # a high index together with low ones, in any order of mention (hash-slot order of {1, 8} is 8, 1)
                    ch = [c for c in ch if c < 8][:2] + [rng.randrange(8, nch) for _ in range(rng.randint(1, 2))]
                    rng.shuffle(ch)
                if rng.random() < 0.03:
                    ch = ch + [nch + rng.randint(0, 2)]
                if rng.random() < 0.04:
                    ch = []
            loads.append([pi, sl, ch])
    rng.shuffle(loads)
    return loads


def run_case(ctx, mods, fdesc, loads, model_reply=None, judge_only=None):
    """run one file + load sequence on the implementation; record correspondence (if a model reply is given) and oracle"""
    File, FileIndexer, LogPass, RepCode, Type01Plan = mods
    lislog = _gen()
    bf = lislog.build_file(fdesc)
    case_base = {'op': 'file', 'file': fdesc, 'loads': loads}
    try:
        stream, f, idx = impl_index(File, FileIndexer, bf.bytes)
    except Exception as e:  # noqa
        impl_sections = ['I ' + err_name(e)]
        ctx.count('oracle_cases')
        ctx.fail(dict(case_base, at='index'), 'FileIndex raised %s on a well-formed file' % err_name(e))
        idx = None
    else:
        impl_sections = ['I ' + ' '.join(entry_str(e) for e in idx.genAll())]
        if judge_only in (None, 'index'):
            oracle_index(ctx, bf, idx, dict(case_base, at='index'))
    results = []
    if idx is not None:
        lps = list(idx.genLogPasses())
        bad_ctor = set()
        for k, (pi, sl, ch) in enumerate(loads):
            if pi >= len(lps):
                impl_sections.append('L nolp'); results.append(None); continue
            res = impl_load(lps[pi].logPass, f, stream, sl, ch)
            results.append(res)
            impl_sections.append(load_text(res))
            if pi < len(bf.passes) and judge_only in (None, k):
                oracle_load(ctx, RepCode, bf, pi, sl, ch, res, dict(case_base, at=k), pi in bad_ctor)
            if pi < len(bf.passes) and ch is not None and any(c >= len(bf.passes[pi]['lp'].chans) for c in ch) \
                    and bf.passes[pi]['lp'].total > 0:
                bad_ctor.add(pi)
    if model_reply is not None:
        secs = model_reply.split(' | ')
        # index section
        mi = secs[0]
        ii = impl_sections[0]
        if mi.startswith('I err') or ii.startswith('I err'):
            ctx.corr('index', dict(case_base, at='index'), ii, mi)
        else:
            mt = [model_entry_canon(t) for t in mi[2:].split(' ')] if len(mi) > 2 else []
            it = ii[2:].split(' ') if len(ii) > 2 else []
            if len(mt) == len(it):
                it2 = []
                for a, b in zip(it, mt):
                    a2, sk = align_fractions(a, b)
                    ctx.count('inexact_float_fields_not_compared', sk)
                    it2.append(a2)
                it = it2
            ctx.corr('index', dict(case_base, at='index'), ' '.join(it), ' '.join(mt))
        for k, (pi, sl, ch) in enumerate(loads):
            if k + 1 >= len(secs) or k + 1 >= len(impl_sections):
                break
            chans_spec = bf.passes[pi]['lp'].chans if pi < len(bf.passes) else []
            try:
                ms = model_load_canon(RepCode, secs[k + 1], chans_spec)
            except Exception as e:  # noqa
                ms = secs[k + 1][:200] + ' (undecodable: %r)' % (e,)
            ims = impl_sections[k + 1]
            # split matrix/X from the operation trace: two streams
            def split_ops(s):
                i = s.find(' ops=')
                return (s, '') if i < 0 else (s[:i], s[i + 5:])
            a, aops = split_ops(ims); b, bops = split_ops(ms)
            if ' X=' in a and ' X=' in b and 'U' in b[b.find(' X='):]:
                # cells the model marks as never written hold arbitrary memory in numpy.empty: not comparable
                ax, bx = a[a.find(' X=') + 3:].split(','), b[b.find(' X=') + 3:].split(',')
                if len(ax) == len(bx):
                    a = a[:a.find(' X=') + 3] + ','.join('U' if y == 'U' else x for x, y in zip(ax, bx))
                    ctx.count('uninitialised_cells_not_compared', bx.count('U'))
            ctx.corr('load', dict(case_base, at=k), a, b)
            ctx.corr('fileops', dict(case_base, at=k), aops, bops)
    return bf, results


def plan_cases(ctx):
    """exhaustive small scope for FrameSetPlan.genEvents"""
    cases = []
    for sizes in ([4], [2, 4], [4, 1, 2], [1, 1, 1, 1], [4, 2, 1, 8]):
        n = len(sizes)
        for indr in (0, 4):
            for r in range(0, n + 1):
                for chans in itertools.combinations(range(n), r):
                    for a in range(0, 4):
                        for b in range(0, 7):
                            for c in range(0, 4):
                                cases.append((indr, sizes, a, b, c, list(chans)))
    return cases


def impl_plan(Type01Plan, indr, sizes, a, b, c, chans):
    dfsr = types.SimpleNamespace(ebs=types.SimpleNamespace(recordingMode=1 if indr else 0, depthRepCode=73),
                                 dsbBlocks=[types.SimpleNamespace(size=s) for s in sizes])
    plan = Type01Plan.FrameSetPlan(dfsr)
    try:
        evs = list(plan.genEvents(slice(a, b, c), chans))
    except Exception as e:  # noqa
        return err_name(e)
    o = lambda v: 'N' if v is None else str(v)
    return 'ok ' + ' '.join('%s/%s/%s/%s/%s' % (t, s, o(f), o(x), o(y)) for t, s, f, x, y in evs) if evs else 'ok '


def oracle_plan(ctx, indr, sizes, a, b, c, chans, text):
    """executing the events reads exactly the selected channels of the selected frames, in order, inside the record"""
    ctx.count('oracle_cases')
    case = {'op': 'plan', 'indr': indr, 'sizes': sizes, 'start': a, 'stop': b, 'step': c, 'chans': chans}
    if not text.startswith('ok'):
        return ctx.fail(case, 'genEvents raised %s' % text)
    fsz = sum(sizes)
    frames = list(range(a, b, c or 1))
    want = []
    if chans and frames:
        if indr:
            want += list(range(indr))
        for f in frames:
            for ch in sorted(chans):
                o = indr + f * fsz + sum(sizes[:ch])
                want += list(range(o, o + sizes[ch]))
    got, pos = [], 0
    for tok in text[3:].split(' '):
        if not tok:
            continue
        t, s = tok.split('/')[:2]
        if t == 'read':
            got += list(range(pos, pos + int(s))); pos += int(s)
        elif t == 'skip':
            pos += int(s)
    if got != want:
        return ctx.fail(case, 'bytes read %s..., selected channel bytes %s...' % (got[:12], want[:12]))
    if frames and chans and pos > indr + (frames[-1] + 1) * fsz:
        return ctx.fail(case, 'read+skip total %d beyond the last selected frame end %d' % (pos, indr + (frames[-1] + 1) * fsz))
    if len(frames) >= 2 and 0 < len(chans) < len(sizes):
        ctx.nontriv(('plan', indr, tuple(sizes), a, b, c, tuple(chans)))


F7_WITNESS = {'items': [{'k': 'lp', 'lp': {'data_type': 0, 'indirect': True, 'depth_rc': 73, 'up_down': 1, 'spacing': 60,
              'spacing_rc': 66, 'units': '.1IN', 'chans': [[4, 1, 68]] * 4, 'fpr': [5, 5, 5], 'x0': 120000, 'vseed': 1,
              'xjit': None, 'shift68': 0}}], 'layout': {}}


def run(ctx):
    logging.disable(logging.CRITICAL)
    mods = _mods()
    File, FileIndexer, LogPass, RepCode, Type01Plan = mods
    lislog = _gen()
    rng = ctx.rng
    # ---------------- spec encoder cross-check (Lean Spec.encDfsr vs the Python generator)
    descs = [lislog.random_logpass_desc(rng) for _ in range(ctx.n(100, 1000))]
    lines = []
    for d in descs:
        spw = lislog.enc_int(d['spacing_rc'], d['spacing'])
        lines.append('encdfsr %d %d %d %d %d %s %s %s' % (
            d['data_type'], 1 if d['indirect'] else 0, d['depth_rc'], d['up_down'], d['spacing_rc'],
            lislog.word_bytes(d['spacing_rc'], spw).hex(), d['units'].encode().hex(),
            ','.join('%d.%d.%d' % tuple(c) for c in d['chans'])))
    for d, rep in zip(descs, ctx.lean(lines)):
        ctx.corr('encoder', {'op': 'encdfsr', 'lp': d}, lislog.LogPassData(d).dfsr.hex(), rep)
    # ---------------- genEvents exhaustive small scope
    pcs = plan_cases(ctx)
    reps = ctx.lean(['plan %d %s %d %d %d %s' % (i, ','.join(map(str, s)), a, b, c, ','.join(map(str, ch)) or '-')
                     for i, s, a, b, c, ch in pcs])
    for (i, s, a, b, c, ch), rep in zip(pcs, reps):
        t = impl_plan(Type01Plan, i, s, a, b, c, ch)
        ctx.corr('genEvents', {'op': 'plan', 'indr': i, 'sizes': s, 'start': a, 'stop': b, 'step': c, 'chans': ch}, t.strip(), rep.strip())
        oracle_plan(ctx, i, s, a, b, c, ch, t)
    ctx.extra['exhaustive_scope'] = 'FrameSetPlan.genEvents: 5 channel-size lists, indirect size 0/4, every channel subset, start 0..3, stop 0..6, step None..3 (%d cases)' % len(pcs)
    # ---------------- files
    cases = [(F7_WITNESS, [[0, [0, 16, 2], None], [0, None, None], [0, [0, 16, 2], [1, 3]], [0, [1, 15, 3], None]])]
    for k in range(ctx.n(1500, 16000)):
        small = rng.random() < 0.5
        fdesc = lislog.random_file_desc(rng, max_passes=2, small=small, jitter=rng.random() < 0.2, zero_rec=0.05,
                                        max_rec=rng.choice([1, 3, 6]), max_fpr=rng.choice([1, 3, 7, 12]),
                                        max_ch=rng.choice(WIDE_CH))
        bf = lislog.build_file(fdesc)
        cases.append((fdesc, random_loads(rng, bf)))
    B = 100
    for i in range(0, len(cases), B):
        chunk = cases[i:i + B]
        lines = [case_line(lislog.build_file(fd), ld) for fd, ld in chunk]
        reps = ctx.lean(lines)
        for (fd, ld), rep in zip(chunk, reps):
            run_case(ctx, mods, fd, ld, model_reply=rep)
    # ---------------- floating point X axes (oracle + float64 reference transcription; the Lean model keeps X integral)
    nfloat = ctx.n(500, 5000)
    for k in range(nfloat):
        items = []
        if rng.random() < 0.5: items.append({'k': 'fh', 'tag': 'F'})
        items.append({'k': 'lp', 'lp': lislog.random_float_logpass_desc(rng, data_type=rng.choice([0, 0, 1]))})
        if rng.random() < 0.5: items.append({'k': 'ft', 'tag': 'F'})
        fdesc = {'items': items, 'layout': lislog.random_layout(rng)}
        run_case(ctx, mods, fdesc, random_loads(rng, lislog.build_file(fdesc), nmax=6))
    ctx.count('float_x_file_cases', nfloat)
    ctx.sample({'op': 'file', 'float_x': True, 'lp': {k2: v for k2, v in fdesc['items'][-1 if fdesc['items'][-1]['k'] == 'lp' else -2].get('lp', {}).items() if k2 in ('indirect', 'depth_rc', 'x0', 'spacing_word', 'fpr', 'up_down')}})
    ctx.sample({'op': 'file', 'items': [it['k'] for it in cases[1][0]['items']], 'layout': cases[1][0]['layout'], 'loads': cases[1][1][:3]})
    ctx.sample({'op': 'file', 'items': [it['k'] for it in cases[-1][0]['items']], 'layout': cases[-1][0]['layout'], 'loads': cases[-1][1][:3]})
    ctx.sample({'op': 'plan', 'case': pcs[len(pcs) // 2]})
    ctx.count('file_cases', len(cases)); ctx.count('plan_cases', len(pcs))
    ctx.extra['exhaustive'] = False


def search(ctx):
    """extra oracle budget when a proof or a correspondence broke: more files, oracle only"""
    mods = _mods()
    lislog = _gen()
    rng = ctx.rng
    for k in range(ctx.n(600, 3000)):
        fdesc = lislog.random_file_desc(rng, max_passes=2, small=rng.random() < 0.6, jitter=rng.random() < 0.2,
                                        max_ch=rng.choice(WIDE_CH))
        run_case(ctx, mods, fdesc, random_loads(rng, lislog.build_file(fdesc)))
        if [f for f in ctx.failures if f['finding'] is None]:
            break


def replay(ctx, rec):
    logging.disable(logging.CRITICAL)
    case = rec.get('case')
    if not case:
        return True, 'nothing to replay (no concrete failing input was recorded)'
    mods = _mods()
    n0 = len(ctx.failures)
    if case.get('op') == 'plan':
        t = impl_plan(mods[4], case['indr'], case['sizes'], case['start'], case['stop'], case['step'], case['chans'])
        oracle_plan(ctx, case['indr'], case['sizes'], case['start'], case['stop'], case['step'], case['chans'], t)
    elif case.get('op') == 'file':
        run_case(ctx, mods, case['file'], case['loads'], judge_only=case.get('at'))
    else:
        return True, 'nothing to replay (no concrete failing input was recorded)'
    new = [f for f in ctx.failures[n0:]]
    unl = [f for f in new if f['finding'] is None]
    if unl:
        return False, unl[0]['detail']
    if new:
        return False, 'known finding %s: %s' % (new[0]['finding'], new[0]['detail'])
    return True, 'oracle holds on this case'
