"""C11 — conversion to LAS keeps exactly the selected frames, channels and values
(RP66V1/ToLAS.py, LIS/ToLAS.py, BIT/ToLAS.py, LAS/core/WriteLAS.py, common/Slice.py)."""
import bisect, glob, hashlib, json, logging, math, os, shutil, struct, warnings

CLAIM = {
 'text': ('Lean 4 theorems decide the frame-selection arithmetic of the three converters for every n, start, stop, step>=1 '
          'and sample size (rp66_rows_eq_python, rp66_well_section_describes_rows, conv_rows_mem_iff, '
          'conv_rows_subset_python, conv_rows_correct_iff, conv_rows_drops_exactly_last, conv_rows_sample; for negative steps '
          'rp66_rows_eq_python_neg, rp66_well_section_describes_rows_neg, conv_rows_neg_unfold, lis_neg_step_outcome): RP66V1 writes exactly the rows Python slicing '
          'selects; LIS/BIT write xs[first:last+1:step], which is exactly that selection iff it is empty or '
          'stop mod step <= start mod step, and otherwise lacks only the last selected frame. The end-to-end pipeline '
          '(file -> reader -> selection -> LAS text -> LASRead) is exercised: real single_*_to_las on the example files, '
          'truncations of them and generated BIT files, output parsed with LASRead and compared row by row, column by column '
          'and value by value with a full read of the source. Partial: proof level for the selection logic only; values, '
          'columns, well section and readability are oracle-checked on the explored cases.'),
 'note': ('Trusted: Lean kernel; model<->code correspondence of the row index lists on the cases of the run; the repository '
          'readers (subjects of C04/C06/C13) as the source of truth for frame values; LASRead (C09) as the output parser; '
          'LIS Units.convert (C17) for FEET <-> .1IN. Known findings F11 (LIS/BIT last frame, LIS well section, BIT STRP), '
          'F7 and the C11-specific classes of known_findings.d/C11.json are tagged by strict class predicates.'),
 'technique': 'Lean 4 proof (omega, induction on lists) + model-implementation correspondence + end-to-end oracle',
 'design_ref': 'DESIGN.md section 6 C11',
}

RULE = ('sources: every example file of the three formats, truncations of them at record boundaries taken from the '
        'repository index, LIS files with several log passes spliced from the examples, generated BIT files (own encoder), generated '
        'RP66V1 files (C04 spec encoder: several frame types, multi-dimensional and integer channels); per source random (selector, channel subset, reduction, width, '
        'decimal format) with steps 1/2/3/large and negative steps, negative / out-of-range / None bounds, sample sizes below/equal/above n, '
        'plus an exhaustive slice scope on a tiny generated BIT file. A case is non-trivial when at least 2 and fewer than '
        'n rows are selected or a non-empty channel subset is given; distinct by (family, source, pass length, selected rows, '
        'columns, reduction, width, format).')
ASSUMPTIONS = ['the frame values returned by a full read with the repository reader are the source values (C04/C06/C13)',
               'Python list slicing range(n)[a:b:c] is the reference for the selected frames',
               'a requested channel is "present" when its name equals a channel identity (LIS: equal after stripping padding)',
               'LIS STRT/STOP/STEP are compared after converting X with the LIS unit table (well section in FEET, rows in .1IN)']
TRUSTED = ['modelled, not verified: builtin slice.indices()/range() (C15 model)',
           'exercised, not proved: readers, reductions (numpy), float formatting, LAS layout, LASRead parsing']

ANCHOR_FILES = ['src/TotalDepth/RP66V1/ToLAS.py', 'src/TotalDepth/LIS/ToLAS.py', 'src/TotalDepth/BIT/ToLAS.py',
                'src/TotalDepth/LAS/core/WriteLAS.py', 'src/TotalDepth/common/Slice.py', 'src/TotalDepth/util/bin_file_type.py',
                'src/TotalDepth/RP66V1/core/LogicalFile.py', 'src/TotalDepth/common/LogPass.py']

FAMS = ('RP66V1', 'LIS', 'BIT')
REDUCTIONS = ('first', 'mean', 'median', 'min', 'max')

# finding ids (known_findings.d/C11.json)
F_DROP = 'F11-lis-bit-last-frame-dropped'
F_BIT1 = 'F11-bit-single-frame-dropped-indexerror'
F_LISW = 'F11-lis-well-section-whole-pass'
F_STRP = 'F11-bit-strp'
F_F7 = 'F7-lis-indirect-x-stepped'
F_LIS1 = 'C11-lis-single-record-stop-step-zero'
F_NEGBIT = 'C11-bit-negative-step-rows-lost'
F_NEGLIS = 'C11-lis-negative-step-unsupported'
# residual classes of the F19 repair (reachable since /repo commit 'fix: LIS to LAS with a channel subset raised TypeError')
F_LISX0 = 'C11-lis-subset-without-known-channel-x-garbage'
F_LISSUB = 'C11-lis-subset-subchannel-granularity'


# ------------------------------------------------------------------ environment

class Env:
    """Lazily imported implementation modules (from core.REPO/src, already on sys.path)."""
    def __init__(self):
        import numpy as np
        from TotalDepth.common import Slice
        from TotalDepth.RP66V1 import ToLAS as RT
        from TotalDepth.RP66V1.core import LogicalFile
        from TotalDepth.LIS import ToLAS as LT
        from TotalDepth.LIS.core import File, FileIndexer, Units
        from TotalDepth.BIT import ToLAS as BT
        from TotalDepth.BIT import ReadBIT
        from TotalDepth.LAS.core import LASRead
        self.np, self.Slice, self.RT, self.LogicalFile, self.LT = np, Slice, RT, LogicalFile, LT
        self.File, self.FileIndexer, self.Units, self.BT, self.ReadBIT, self.LASRead = File, FileIndexer, Units, BT, ReadBIT, LASRead
        self.conv = {'RP66V1': RT.single_rp66v1_file_to_las, 'LIS': LT.single_lis_file_to_las,
                     'BIT': BT.single_bit_path_to_las_path}


def repo_root():
    import core
    return core.REPO


# ------------------------------------------------------------------ source providers
# A source is a small JSON-able spec; materialise(spec, dir) -> path of the file.  Add providers to SOURCE_PROVIDERS.

EXAMPLE_DIRS = {'RP66V1': 'example_data/RP66V1/data', 'LIS': 'example_data/LIS/data', 'BIT': 'example_data/BIT/data'}


def provider_examples(env, fam, rng, tier):
    d = os.path.join(repo_root(), EXAMPLE_DIRS[fam])
    return [{'fam': fam, 'kind': 'example', 'name': os.path.basename(p)} for p in sorted(glob.glob(os.path.join(d, '*')))]


def _cut_points(env, fam, path):
    """Record boundaries of an example file, from the repository's own index."""
    if fam == 'BIT':
        with open(path, 'rb') as f:
            tells = [b.tell for b in env.ReadBIT.yield_tif_blocks(f)]
        return tells[2:]                         # keep the first block and at least one data block
    if fam == 'LIS':
        fi = env.File.FileRead(path, theFileId=path, keepGoing=True)
        idx = env.FileIndexer.FileIndex(fi)
        out = set()
        for ilp in idx.genLogPasses():
            lp = ilp.logPass
            if lp.totalFrames:
                out |= {lp._rle.tellLrForFrame(i)[0] for i in range(lp.totalFrames)}
        return sorted(out)[1:]
    out = set()
    with env.LogicalFile.LogicalIndex(path) as li:
        for lf in li.logical_files:
            if lf.has_log_pass:
                for fa in lf.log_pass.frame_arrays:
                    for r in lf.iflr_position_map[fa.ident]:
                        out.add(r.logical_record_position.vr_position)
                        out.add(r.logical_record_position.lrsh_position)
    return sorted(out)[1:]


def provider_cuts(env, fam, rng, tier):
    d = os.path.join(repo_root(), EXAMPLE_DIRS[fam])
    out = []
    for p in sorted(glob.glob(os.path.join(d, '*'))):
        try:
            cuts = _cut_points(env, fam, p)
        except Exception:
            continue
        if not cuts:
            continue
        k = 3 if tier == 'quick' else 6
        picks = {cuts[0], cuts[min(len(cuts) - 1, 2)]} | {rng.choice(cuts) for _ in range(k)}
        for c in sorted(picks):
            out.append({'fam': fam, 'kind': 'cut', 'name': os.path.basename(p), 'size': int(c)})
    return out


def provider_lis_splice(env, fam, rng, tier):
    """LIS files holding several log passes, spliced from the example files at logical-record boundaries of the repo index:
    A + B (two logical files, each with its CONS tables) and A + the tail of A/B starting at the DFSR of its log pass
    (a second log pass that is not preceded by a CONS table)."""
    if fam != 'LIS':
        return []
    d = os.path.join(repo_root(), EXAMPLE_DIRS['LIS'])
    names = [os.path.basename(p) for p in sorted(glob.glob(os.path.join(d, '*')))]
    info = {}
    for nm in names:
        path = os.path.join(d, nm)
        try:
            fi = env.File.FileRead(path, theFileId=path, keepGoing=True)
            idx = env.FileIndexer.FileIndex(fi)
            tells = [ilp.tell for ilp in idx.genLogPasses() if ilp.logPass.totalFrames]
        except Exception:
            continue
        if tells:
            info[nm] = (os.path.getsize(path), tells[0])
    out = []
    nm = sorted(info)
    for i, a in enumerate(nm):
        b = nm[(i + 1) % len(nm)]
        out.append({'fam': 'LIS', 'kind': 'splice', 'name': 'splice_%d_whole.lis' % i, 'parts': [[a, 0, info[a][0]], [b, 0, info[b][0]]]})
        out.append({'fam': 'LIS', 'kind': 'splice', 'name': 'splice_%d_tail.lis' % i, 'parts': [[a, 0, info[a][0]], [b, info[b][1], info[b][0]]]})
        if tier == 'quick' and i >= 1:
            break
    return out


# ---- generated BIT files (own encoder, written from the ReadBIT layout)

def ibm_float_bytes(x):
    """IBM single-precision hexadecimal float (exact for the dyadic values used here)."""
    if x == 0:
        return b'\x00\x00\x00\x00'
    sign = 0x80 if x < 0 else 0
    x = abs(x)
    e = 64
    while x >= 16.0 ** (e - 64): e += 1
    while x < 16.0 ** (e - 65): e -= 1
    mant = int(x / 16.0 ** (e - 64) * 0x1000000)
    return bytes([sign | e, (mant >> 16) & 255, (mant >> 8) & 255, mant & 255])


def _not_a_number(name):
    """LASRead turns a mnemonic that float() accepts ('NAN', 'INF', '00') into a number (C09's subject): not generated."""
    try:
        float(name.strip())
        return False
    except ValueError:
        return True


def random_bit_desc(rng, tiny=False):
    passes = []
    for _ in range(1 if tiny else rng.choice([1, 1, 2, 3])):
        nch = rng.randint(1, 3) if tiny else rng.choice([1, 2, 3, 5, 8, 12, 20])
        names, used = [], {'X   '}
        while len(names) < nch:
            # first character a letter: LASRead turns an all-digit mnemonic into a number (C09's subject)
            nm = (rng.choice('ABCDEFGHKLMNPRSTUVW') + ''.join(rng.choice('ABCDEFGHKLMNPRSTUVW0123456789') for _ in range(rng.randint(0, 3)))).ljust(4)
            if nm not in used and _not_a_number(nm):
                used.add(nm); names.append(nm)
        nb = 1 if tiny else rng.randint(1, 5)
        blocks = [rng.randint(2, 7)] if tiny else [rng.choice([1, 2, 3, 4, 8, 16]) for _ in range(nb)]
        sp = rng.choice([0.25, 0.5, 1.0, 2.0])
        x0 = rng.randint(40, 60000) * 0.25
        up = rng.random() < 0.5
        passes.append({'names': names, 'blocks': blocks, 'from': x0, 'to': 0.25 if up else x0 + 4000.0, 'sp': sp,
                       'vseed': rng.getrandbits(32)})
    return {'passes': passes, 'tail': rng.choice([2, 2, 1, 0])}


def encode_bit(desc):
    import random
    chunks = []          # (type, payload)
    for p in desc['passes']:
        nch = len(p['names'])
        head = b'\x00\x02\x00\x00'
        head += b'GENERATED BIT FILE FOR C11'.ljust(72) + b'\x00\x0a\x00\x18\x00' + b'T  WELL C11'.ljust(75) + b'\x00\x12\x00\x0b\x00\x06  '
        head += struct.pack('>H', nch) + b'\x00\x00'
        head += b''.join(n.encode('ascii') for n in p['names']).ljust(80)
        for v in (p['from'], p['to'], p['sp'], 0.0, 16.0):
            head += ibm_float_bytes(v)
        head += b'MN239J 1'
        assert len(head) == 0x114, len(head)
        chunks.append((0, head))
        rnd = random.Random(p['vseed'])
        for fpb in p['blocks']:
            b = bytearray()
            for _ in range(nch * fpb):
                b += bytes([(0x80 if rnd.random() < 0.3 else 0) | rnd.randint(61, 68), rnd.getrandbits(8), rnd.getrandbits(8), rnd.getrandbits(8)])
            chunks.append((0, bytes(b)))
        chunks.append((1, b''))
    chunks += [(1, b'')] * max(0, desc.get('tail', 2) - 1)
    if desc.get('tail', 2) == 0:
        chunks.pop()                   # no end-of-pass marker at all: premature EOF
    out, pos, prev = bytearray(), 0, 0
    for typ, payload in chunks:
        nxt = pos + 12 + len(payload)
        out += struct.pack('<3L', typ, prev, nxt) + payload
        prev, pos = pos, nxt
    return bytes(out)


def provider_bit_generated(env, fam, rng, tier):
    if fam != 'BIT':
        return []
    return [{'fam': 'BIT', 'kind': 'gen', 'desc': random_bit_desc(rng)} for _ in range(16 if tier == 'quick' else 60)]


# ---- generated RP66V1 files: CHANNEL / FRAME tables and frame records from the C04 Lean spec encoder (`drv_c04 encfile`),
#      FILE-HEADER and ORIGIN (with the attributes the converter reads) from the small EFLR encoder below, physical wrapping
#      by gen/c03phys.py.  Several frame types per logical file, multi-dimensional and integer channels.

EXTRA_LEAN_TARGETS = ('drv_c04',)
RP66_INT_RANGE = {12: (-128, 127), 13: (-32768, 32767), 14: (-2 ** 31, 2 ** 31 - 1), 15: (0, 255), 16: (0, 65535), 17: (0, 2 ** 32 - 1)}
RP66_DIMS = [[1], [1], [1], [2], [3], [2, 2], [1, 3], [4], [2, 3]]


def _rp_ident(b): return bytes([len(b)]) + b
def _rp_uvari(n): return bytes([n]) if n < 0x80 else struct.pack('>H', n | 0x8000)
def _rp_ascii(b): return _rp_uvari(len(b)) + b


def _rp_eflr(set_type, cols, objects):
    """An EFLR body: SET(type), template of (label, rep code) attributes, objects [(origin, copy, ident), [value bytes]]."""
    out = b'\xf0' + _rp_ident(set_type)
    for label, rc in cols:
        out += b'\x34' + _rp_ident(label) + bytes([rc])
    for (o, c, i), vals in objects:
        out += b'\x70' + _rp_uvari(o) + bytes([c]) + _rp_ident(i)
        for v in vals:
            out += b'\x21' + v
    return out


def rp66_header_records():
    fh = _rp_eflr(b'FILE-HEADER', [(b'SEQUENCE-NUMBER', 20), (b'ID', 20)],
                  [((2, 0, b'5'), [_rp_ascii(b'%10d' % 1), _rp_ascii(b'C11 GENERATED FILE'.ljust(65))])])
    dtime = bytes([121, 3, 7, 10, 0, 49, 0, 0])
    org = _rp_eflr(b'ORIGIN', [(b'FILE-ID', 20), (b'FILE-SET-NAME', 19), (b'FILE-SET-NUMBER', 18), (b'FILE-NUMBER', 18),
                               (b'CREATION-TIME', 21), (b'WELL-NAME', 20), (b'FIELD-NAME', 20), (b'PRODUCER-NAME', 20), (b'COMPANY', 20)],
                   [((2, 0, b'DEFINING'), [_rp_ascii(b'C11 GENERATED FILE'), _rp_ident(b'SET'), _rp_uvari(1), _rp_uvari(1), dtime,
                                          _rp_ascii(b'WELL 1'), _rp_ascii(b'FIELD'), _rp_ascii(b'PRODUCER'), _rp_ascii(b'COMPANY')])])
    return (False, True, 0, fh), (False, True, 1, org)


def _rp_word(rng, rc, x=None):
    """request token of one value: floats as raw words (`w<rc>.<word>`), integers as `i<v>`"""
    if rc == 2:
        return 'w2.%d' % struct.unpack('>I', struct.pack('>f', x))[0]
    if rc == 7:
        return 'w7.%d' % struct.unpack('>Q', struct.pack('>d', x))[0]
    if rc == 5:      # IBM single: moderate exponents, any mantissa
        return 'w5.%d' % (((0x80 if rng.random() < 0.3 else 0) | rng.randint(61, 68)) << 24 | rng.getrandbits(24))
    return 'i%d' % x


def random_rp66_request(rng):
    used, fts, per = set(), [], []
    for k in range(rng.choice([1, 1, 2, 2, 3])):
        chans = []
        for j in range(rng.randint(1, 5)):
            while True:
                nm = rng.choice('ABCDGHKLMPRSTVW') + ''.join(rng.choice('ABCDGHKLMPRSTVW0123456789') for _ in range(rng.randint(1, 4)))
                if nm not in used and _not_a_number(nm): break
            used.add(nm)
            rc = rng.choice([2, 7, 14, 16, 17]) if j == 0 else rng.choice([2, 2, 5, 7, 7, 12, 13, 14, 15, 16, 17])
            chans.append((nm, rc, [1] if j == 0 else rng.choice(RP66_DIMS)))
        fts.append((b'FR%d' % k, chans))
        per.append(rng.choice([1, 2, 3, 5, 8, 12, 20, rng.randint(1, 30)]))
    lp = [str(len(fts))]
    for ident, chans in fts:
        lp += ['2', '0', ident.hex(), str(len(chans))]
        for nm, rc, dims in chans:
            lp += [nm.encode('ascii').hex(), str(rc), str(len(dims))] + [str(d) for d in dims]
    order = [k for k, n in enumerate(per) for _ in range(n)]
    rng.shuffle(order)
    xstate = []
    for ident, chans in fts:
        rc = chans[0][1]
        step = rng.choice([0.5, 1.0, 2.0, 10.0]) if rc in (2, 7) else rng.choice([1, 2, 10])
        down = rng.random() < 0.4
        x0 = rng.randint(2000, 30000) if rc in (16,) else rng.randint(2000, 900000)
        xstate.append([x0, -step if down else step])
    counters = [0] * len(fts)
    frames = []
    for k in order:
        ident, chans = fts[k]
        counters[k] += 1
        x = xstate[k][0] + xstate[k][1] * (counters[k] - 1)
        toks = ['%d' % k, '%d' % counters[k], 'V']
        for j, (nm, rc, dims) in enumerate(chans):
            cnt = 1
            for d in dims: cnt *= d
            toks.append(str(cnt))
            for _ in range(cnt):
                if j == 0:
                    toks.append(_rp_word(rng, rc, float(x) if rc in (2, 7) else int(x)))
                elif rc in (2, 7):
                    toks.append(_rp_word(rng, rc, rng.choice([rng.uniform(-1000, 1000), rng.uniform(-1, 1), float(rng.randint(-10 ** 6, 10 ** 6)), -999.25])))
                elif rc == 5:
                    toks.append(_rp_word(rng, rc))
                else:
                    lo, hi = RP66_INT_RANGE[rc]
                    toks.append(_rp_word(rng, rc, rng.choice([lo, hi, 0, rng.randint(lo, hi), rng.randint(max(lo, -100), min(hi, 100))])))
        frames.append(' '.join(toks))
    return 'encfile %s %d %s' % (' '.join(lp), len(frames), ' '.join(frames))


def _drv_c04():
    import core
    return os.path.join(core.LEAN_DIR, '.lake', 'build', 'bin', 'drv_c04')


def encode_rp66(spec):
    import random, subprocess
    from gen import c03phys
    p = subprocess.run([_drv_c04()], input=(spec['req'] + '\n').encode(), stdout=subprocess.PIPE, stderr=subprocess.PIPE, timeout=600)
    t = p.stdout.decode().strip().split(' ')
    if p.returncode != 0 or not t[0].isdigit():
        raise ValueError('drv_c04 refused the request: ' + p.stdout.decode()[:100])
    recs = []
    for k in range(int(t[0])):
        e, x, ty, h = t[1 + 4 * k: 5 + 4 * k]
        recs.append((e == '1', x == '1', int(ty), b'' if h == '-' else bytes.fromhex(h)))
    recs[0], recs[1] = rp66_header_records()
    return c03phys.wrap(recs, random.Random(spec['wseed']))


def provider_rp66_generated(env, fam, rng, tier):
    if fam != 'RP66V1' or not os.path.exists(_drv_c04()):
        return []
    try:
        from gen import c03phys     # noqa: F401
    except ImportError:
        return []
    return [{'fam': 'RP66V1', 'kind': 'gen04', 'req': random_rp66_request(rng), 'wseed': rng.getrandbits(32)}
            for _ in range(10 if tier == 'quick' else 40)]


SOURCE_PROVIDERS = {
    'RP66V1': [provider_examples, provider_cuts, provider_rp66_generated],
    'LIS': [provider_examples, provider_cuts, provider_lis_splice],
    'BIT': [provider_examples, provider_cuts, provider_bit_generated],
}
_OPTIONAL = [('gen.c11_sources', 'providers')]     # a later module may export providers(): {fam: [provider, ...]}


def all_providers():
    import importlib
    prov = {k: list(v) for k, v in SOURCE_PROVIDERS.items()}
    for mod, attr in _OPTIONAL:
        try:
            m = importlib.import_module(mod)
            for fam, lst in getattr(m, attr)().items():
                prov.setdefault(fam, []).extend(lst)
        except ImportError:
            pass
    return prov


def materialise(spec, scratch):
    key = hashlib.sha1(json.dumps(spec, sort_keys=True).encode()).hexdigest()[:16]
    d = os.path.join(scratch, 'src', key)
    fam = spec['fam']
    if spec['kind'] == 'gen':
        path = os.path.join(d, 'gen.bit')
    elif spec['kind'] == 'gen04':
        path = os.path.join(d, 'gen.dlis')
    else:
        path = os.path.join(d, spec['name'])
    if os.path.exists(path):
        return path
    os.makedirs(d, exist_ok=True)
    if spec['kind'] == 'example':
        shutil.copyfile(os.path.join(repo_root(), EXAMPLE_DIRS[fam], spec['name']), path)
    elif spec['kind'] == 'cut':
        with open(os.path.join(repo_root(), EXAMPLE_DIRS[fam], spec['name']), 'rb') as f:
            data = f.read(spec['size'])
        with open(path, 'wb') as f:
            f.write(data)
    elif spec['kind'] == 'gen' and fam == 'BIT':
        with open(path, 'wb') as f:
            f.write(encode_bit(spec['desc']))
    elif spec['kind'] == 'gen04':
        with open(path, 'wb') as f:
            f.write(encode_rp66(spec))
    elif spec['kind'] == 'splice':
        with open(path, 'wb') as f:
            for nm, a, b in spec['parts']:
                with open(os.path.join(repo_root(), EXAMPLE_DIRS[fam], nm), 'rb') as g:
                    g.seek(a)
                    f.write(g.read(b - a))
    elif 'materialise' in spec:           # optional providers may carry their own builder name
        import importlib
        mod, fn = spec['materialise'].rsplit('.', 1)
        getattr(importlib.import_module(mod), fn)(spec, path)
    else:
        raise ValueError(spec)
    return path


# ------------------------------------------------------------------ truth: full read of the source with the repo's reader

class Pass:
    """One log pass of a source file as the repository reader returns it (all frames, all channels)."""
    def __init__(self, key, names, cols, is_int, out_name=None):
        self.key, self.names, self.cols, self.is_int, self.out_name = key, names, cols, is_int, out_name
        self.n = len(cols[0]) if cols else 0
        self.indirect = False       # LIS: implied X axis
        self.rec_of = None          # LIS: (record tell, offset in record) per frame
        self.to_optical = None      # LIS: X -> well-section units
        self.f32 = [False] * len(cols)
        self.group = None           # LIS: external channel (DSB block) of each column

    def x(self):
        return self.cols[0][:, 0] if self.cols else []


def read_truth(env, fam, path):
    """-> (passes, stubs, extra) ; stubs = number of outputs expected that are not log passes (RP66V1 logical files
    without one); extra['lis_seq'] = CONS tables / log passes of a LIS file in index order."""
    np = env.np
    passes, stubs, extra = [], 0, {}
    if fam == 'RP66V1':
        stem = os.path.splitext(os.path.basename(path))[0]
        with env.LogicalFile.LogicalIndex(path) as li:
            for lfi, lf in enumerate(li.logical_files):
                if not lf.has_log_pass:
                    stubs += 1
                    continue
                for fa in lf.log_pass.frame_arrays:
                    n = lf.populate_frame_array(fa)
                    cols, names, is_int, f32 = [], [], [], []
                    for c in fa.channels:
                        a = np.array(c.array)
                        cols.append(a.reshape(len(a), -1))
                        names.append(str(c.ident))
                        is_int.append(bool(np.issubdtype(a.dtype, np.integer)))
                        f32.append(a.dtype == np.float32)
                    p = Pass(f'{lfi}_{fa.ident.I.decode("ascii")}', names, cols, is_int,
                             out_name=f'{stem}_{lfi}_{fa.ident.I.decode("ascii")}.las')
                    p.f32 = f32
                    p.n = n
                    passes.append(p)
    elif fam == 'LIS':
        fi = env.File.FileRead(path, theFileId=path, keepGoing=True)
        idx = env.FileIndexer.FileIndex(fi)
        seq, npass = [], 0
        for ie in idx.genAll():
            if isinstance(ie, env.FileIndexer.IndexLogPass):
                fr = ie.logPass.totalFrames
                seq.append(['P', fr, npass if fr else None])
                npass += 1 if fr else 0
            elif isinstance(ie, env.FileIndexer.IndexTable) and ie.name == b'CONS':
                seq.append(['C'])
        extra['lis_seq'] = seq
        for k, ilp in enumerate(idx.genLogPasses()):
            lp = ilp.logPass
            n = lp.totalFrames
            if not n:
                continue
            lp.setFrameSet(fi, None, None)
            fs = lp.frameSet
            names = [nm for nm, _u in lp.genFrameSetScNameUnit(toAscii=True)]
            cols, group = [], []
            for ch in fs.genExtChIndexes():
                for sc in range(fs.numSubChannels(ch)):
                    cols.append(np.array(fs.frameView(ch, sc), dtype=np.float64).reshape(n, -1))
                    group.append(ch)
            assert len(names) == len(cols), (len(names), len(cols))
            if fs.isIndirectX:
                cols.insert(0, np.array([fs.xAxisValue(i) for i in range(n)], dtype=np.float64).reshape(n, 1))
                names.insert(0, 'X')
                group.insert(0, -1)
            p = Pass(str(k), names, cols, [False] * len(cols))
            p.group = group
            p.indirect = bool(fs.isIndirectX)
            p.rec_of = [lp._rle.tellLrForFrame(i) for i in range(n)]
            uf, ut = lp.xAxisUnits, env.Units.opticalUnits(lp.xAxisUnits)
            p.to_optical = (lambda v, uf=uf, ut=ut: env.Units.convert(v, uf, ut))
            passes.append(p)
    else:
        with open(path, 'rb') as f:
            fas = env.ReadBIT.create_bit_frame_array_from_file(f)
        for k, bfa in enumerate(fas):
            if bfa.frame_array is None:
                passes.append(Pass(str(k), [], [], []))
                continue
            cols = [np.array(c.array, dtype=np.float64).reshape(len(c.array), -1) for c in bfa.frame_array.channels]
            passes.append(Pass(str(k), [str(c.ident) for c in bfa.frame_array.channels], cols, [False] * len(cols)))
    return passes, stubs, extra


# ------------------------------------------------------------------ reference semantics (independent of the model)

def py_rows(sel, n):
    """Frames the property demands for a slice; for a sample only the *shape* is demanded (see check_sample_shape)."""
    assert sel[0] == 'slice'
    return list(range(n))[slice(sel[1], sel[2], sel[3])]


def drop_class(sel, n):
    """Class predicate of F11 (theorem conv_rows_correct_iff): positive step, normalised start < stop and
    stop mod step > start mod step."""
    if sel[0] != 'slice':
        return False
    s, e, st = slice(sel[1], sel[2], sel[3]).indices(n)
    return st > 0 and s < e and (e % st) > (s % st)


def sliced_bounds(sel, n):
    """(first, last + 1, step) the LIS / BIT converters slice with: the clamped stop replaced by step * floor(stop / step)
    (theorems conv_rows_mem_iff, conv_rows_neg_unfold; `Slice.last` as pinned by test_slice_last)."""
    s, e, st = slice(sel[1], sel[2], sel[3]).indices(n)
    return s, (n if n < e else st * (e // st)), st


def bit_sliced_rows(sel, n):
    """rows of `array[first : last+1 : step]` (negative bounds wrap, as numpy does) - class predicate of the BIT findings"""
    s, b, st = sliced_bounds(sel, n)
    return list(range(n))[s:b:st]


def lis_frame_range(sel, n):
    """`range(first, last+1, step)` (no wrapping), the frames LIS FrameSet is sized for - class predicate of the LIS finding"""
    s, b, st = sliced_bounds(sel, n)
    return list(range(s, b, st))


def lis_shares_record(p, frames):
    """some data record holds two of the frames (then `_sliceFromList` builds a slice with a negative step and the plan raises)"""
    recs = [p.rec_of[j][0] for j in frames]
    return len(set(recs)) < len(recs)


def lis_fpr(p):
    """frames per data record, in file order (from the repository index)"""
    out, last = [], None
    for rec, _off in p.rec_of:
        if rec != last:
            out.append(0); last = rec
        out[-1] += 1
    return out


def reduce_ref(np, col, red):
    """Independent reference of the array reduction, per frame, in float64."""
    if col.shape[1] == 1 or red == 'first':
        return col[:, 0].astype(np.float64) if col.dtype != np.float64 else col[:, 0]
    c = col.astype(np.float64)
    if red == 'min': return c.min(axis=1)
    if red == 'max': return c.max(axis=1)
    if red == 'mean': return c.sum(axis=1) / c.shape[1]
    if red == 'median':
        s = np.sort(c, axis=1); k = c.shape[1]
        return s[:, k // 2] if k % 2 else (s[:, k // 2 - 1] + s[:, k // 2]) / 2.0
    raise ValueError(red)


def decimals(ff):
    return int(ff[1:-1])


def name_present(fam, want, ident):
    if fam == 'LIS':
        return want.rstrip(' \x00') == ident.rstrip(' \x00')
    return want == ident


def expected_columns(fam, p, chans):
    """indices into p.cols of the columns the LAS must hold: X axis + requested∩present, in source order."""
    if not p.cols:
        return []
    if not chans:
        return list(range(len(p.cols)))
    return [i for i in range(len(p.cols)) if i == 0 or any(name_present(fam, w, p.names[i]) for w in chans)]


# ------------------------------------------------------------------ running one case

def selector(env, sel):
    return env.Slice.Slice(sel[1], sel[2], sel[3]) if sel[0] == 'slice' else env.Slice.Sample(sel[1])


def _num_suffix(name):
    stem = name[:-4]
    t = stem.rsplit('_', 1)[-1]
    return int(t) if t.isdigit() else -1


def run_converter(env, case, path, outdir):
    shutil.rmtree(outdir, ignore_errors=True)
    os.makedirs(outdir)
    fam = case['fam']
    res = env.conv[fam](path, case['red'], os.path.join(outdir, os.path.basename(path)), selector(env, case['sel']),
                        set(case['chans']), case['w'], case['ff'])
    outs = sorted((f for f in os.listdir(outdir) if f.endswith('.las')), key=lambda f: (_num_suffix(f), f))
    return res, outs


def parse_las(env, path):
    try:
        return env.LASRead.LASRead(path, raise_on_error=True), None
    except Exception as e:       # any failure = not a readable LAS file
        return None, f'{type(e).__name__}: {str(e)[:160]}'


def wsd(las, mnem):
    try:
        sec = las['W']
        if mnem in sec:
            return sec[mnem].valu
    except Exception:
        pass
    return None


def as_float(v):
    try:
        return float(v)
    except (TypeError, ValueError):
        return None


def nearest_index(xs, v):
    best, bi = None, -1
    for i, x in enumerate(xs):
        d = abs(float(x) - v)
        if best is None or d < best:
            best, bi = d, i
    return bi


class Verdict:
    def __init__(self):
        self.fails = []      # (detail, finding)
        self.corr = []       # (stream, impl, model_request, post)  -- resolved after the driver ran
        self.nontriv = []
        self.seen = []       # (pass, observed row indices, (STRT index, STOP index)) per evaluated output

    def fail(self, detail, finding=None):
        self.fails.append((detail, finding))


def evaluate_case(env, case, truth, res, outs, outdir, v):
    """The property oracle for one conversion (implementation alone) + observations for the correspondence."""
    np = env.np
    fam, sel, chans = case['fam'], case['sel'], case['chans']
    passes, stubs, extra = truth
    # ---- which pass is predicted to abort the conversion by a listed defect class
    abort_at, abort_finding = None, None
    neg = sel[0] == 'slice' and sel[3] is not None and sel[3] < 0
    for k, p in enumerate(passes):
        if fam == 'BIT' and sel[0] == 'slice' and p.cols and py_rows(sel, p.n) and not bit_sliced_rows(sel, p.n):
            # count() >= 1 but the sliced arrays are empty: IndexError
            abort_at, abort_finding = k, (F_NEGBIT if neg else F_BIT1); break
        if fam == 'LIS' and neg and py_rows(sel, p.n) and lis_shares_record(p, lis_frame_range(sel, p.n)):
            abort_at, abort_finding = k, F_NEGLIS; break      # two selected frames in one record with a step < 1: the plan raises
    if res.ignored:
        v.fail(f'source file not recognised as {fam}: reported type "{res.binary_file_type}"'); return
    if res.exception:
        if abort_at is None:
            v.fail('conversion reported an exception (file failed) outside every listed class'); return
        v.fail(f'conversion fails with an exception at log pass {abort_at}: {abort_finding}', abort_finding)
        v.seen.append((passes[abort_at], 'indexerror' if fam == 'BIT' else 'planerror', None))
        if fam == 'RP66V1':
            return
        n_eval = abort_at
    else:
        n_eval = len(passes)
    # ---- exactly one LAS per log pass
    if fam == 'RP66V1':
        by_name = {p.out_name: p for p in passes}
        pass_outs = [(f, by_name[f]) for f in outs if f in by_name]
        extra = [f for f in outs if f not in by_name]
        if not res.exception and (len(pass_outs) != len(passes) or len(extra) != stubs):
            v.fail(f'{len(passes)} log pass(es) and {stubs} logical file(s) without one, but outputs {outs}'); return
    else:
        if fam == 'LIS':
            cand = []
            for f in outs:
                las, err = parse_las(env, os.path.join(outdir, f))
                if las is None or las.has_section('C') or las.has_section('W'):
                    cand.append(f)
        else:
            cand = list(outs)
        eval_passes = passes
        if not res.exception and len(cand) != len(passes):
            v.fail(f'{len(passes)} log pass(es) with frames in the source but {len(cand)} LAS file(s) for log passes: {outs}'); return
        pass_outs = list(zip(cand, eval_passes))[:n_eval]
    if not res.exception and res.las_count != len(outs):
        v.fail(f'result.las_count={res.las_count} but {len(outs)} LAS files written')
    for f, p in pass_outs:
        obs, widx = evaluate_pass(env, case, p, os.path.join(outdir, f), v)
        if obs is not None and -1 not in obs:
            v.seen.append((p, obs, widx))


def evaluate_pass(env, case, p, las_path, v):
    np = env.np
    fam, sel, chans, red, w, ff = case['fam'], case['sel'], case['chans'], case['red'], case['w'], case['ff']
    n = p.n
    d = decimals(ff)
    tag = f'pass {p.key} (n={n})'
    in_drop = fam in ('LIS', 'BIT') and drop_class(sel, n)
    want_rows = py_rows(sel, n) if sel[0] == 'slice' else None
    exp_cols = expected_columns(fam, p, chans)
    refs = {i: reduce_ref(np, p.cols[i], red if fam != 'BIT' else 'first') for i in exp_cols}
    las, err = parse_las(env, las_path)
    x_garbage = (fam == 'LIS' and p.indirect and bool(chans) and len(exp_cols) == 1 and bool(lis_rows_written(sel, n)))
    if las is None and x_garbage:
        # residual of the F19 patch: empty channel list on an implied-X pass leaves the X vector uninitialised (C06 F21)
        v.fail(f'{tag}: LAS not readable ({err}); no requested channel exists and the implied X is uninitialised', F_LISX0)
        return None, None
    if las is None:
        v.fail(f'{tag}: LAS file not readable by LASRead: {err}')
        return None, None
    fa = las.frame_array
    rows = las.number_of_frames() if fa is not None else 0
    # ---- columns
    if fa is not None and len(fa.channels):
        got = [str(c.ident).strip() for c in fa.channels]
        want = [p.names[i].strip() for i in exp_cols]
        if got != want:
            wide = [i for i in range(len(p.cols)) if i == 0 or p.group[i] in {p.group[j] for j in exp_cols[1:]}] if (fam == 'LIS' and p.group) else None
            if wide is not None and wide != exp_cols and got == [p.names[i].strip() for i in wide]:
                # residual of the F19 patch: channels are selected by DSB block, all sub-channels of a block come along
                v.fail(f'{tag}: columns {got[:12]} hold every sub-channel of the requested channels, wanted {want[:12]}', F_LISSUB)
                exp_cols = wide
                refs = {i: reduce_ref(np, p.cols[i], red) for i in exp_cols}
            else:
                v.fail(f'{tag}: columns {got[:12]} != X axis + requested channels {want[:12]}'); return None, None
    elif want_rows or (want_rows is None and n > 0):
        v.fail(f'{tag}: no array section but frames were selected'); return [], None
    # ---- rows: recover the frame index of every row by matching its values against the full read
    tol = 0.5 * 10.0 ** (-d)
    obs = []
    xbad = []
    if rows:
        data = [np.ma.getdata(c.array).reshape(rows, -1)[:, 0].astype(np.float64) for c in fa.channels]
        # the claim under test for each row; for a LIS/BIT sample (only its shape is demanded) the regular stride is used
        # merely to break ties between frames that carry identical values
        hint = want_rows if want_rows is not None else (lis_rows_written(sel, n) if fam in ('LIS', 'BIT') else None)
        if fam == 'LIS' and want_rows is not None and sel[3] is not None and sel[3] < 0 and want_rows != lis_rows_written(sel, n) \
                and len(lis_rows_written(sel, n)) == rows:
            hint = lis_rows_written(sel, n)      # test the class of the negative-step finding first (frames may carry equal values)
        xsrc = p.cols[0][:, 0].astype(np.float64)
        oks, okx = [], []       # per row: frames matching on every column but an implied X / frames matching on the implied X
        for r in range(rows):
            ok = np.ones(n, dtype=bool)
            for k, i in enumerate(exp_cols):
                if k == 0 and p.indirect:
                    continue            # the implied X of LIS is matched separately (known finding F7)
                ref = refs[i]
                multi = p.cols[i].shape[1] > 1 and red in ('mean', 'median')
                t = (0.5 if multi else 0.0) if p.is_int[i] else tol        # integers print with d (exact) or .0f
                # numpy reduces in the channel's own precision: the rounding error of a mean/median is relative to the largest
                # ELEMENT of the frame (cancellation), not to the reduced value
                amax = np.abs(p.cols[i].astype(np.float64)).max(axis=1) if multi else np.abs(ref)
                amax = np.where(np.isfinite(amax), amax, 0.0)
                nel = p.cols[i].shape[1]
                slack = amax * (2.0 ** -50) * max(nel, 1) + (amax * 2.0 ** -22 * max(nel, 1) if (p.f32[i] and multi) else 0.0)
                with np.errstate(invalid='ignore'):
                    ok &= (np.abs(ref - data[k][r]) <= t * (1 + 1e-9) + slack) | (np.isnan(ref) & np.isnan(data[k][r]))
            oks.append(ok)
            okx.append((np.abs(xsrc - data[0][r]) <= tol * (1 + 1e-9) + np.abs(xsrc) * 2.0 ** -50) if p.indirect else None)

        def assign(strict):
            out, prev = [], -1
            for r in range(rows):
                if hint is not None and r < len(hint) and oks[r][hint[r]]:
                    # the claim under test "row r is selected frame r" fits every column (an implied X is judged below)
                    j = hint[r]
                else:
                    ok = oks[r] & okx[r] if (p.indirect and (strict or (oks[r] & okx[r]).any())) else oks[r]
                    cands = np.flatnonzero(ok)
                    j = -1
                    if len(cands):
                        after = cands[cands > prev]
                        pool = after if len(after) else cands
                        # several frames carry the same values: take the one whose X is nearest to the row's X
                        j = int(pool[np.argmin(np.abs(xsrc[pool] - data[0][r]))]) if p.indirect else int(pool[0])
                out.append(j)
                prev = j if j >= 0 else prev
            return out
        if x_garbage:
            # only the (uninitialised) implied X was written: the rows cannot be identified at all
            want_x = [xsrc[j] for j in lis_rows_written(sel, n)]
            if len(want_x) != rows or any(abs(a - b) > tol * (1 + 1e-9) + abs(a) * 2.0 ** -50 for a, b in zip(want_x, data[0])):
                v.fail(f'{tag}: X column is not the X of the selected frames; no requested channel exists and the implied X '
                       f'is uninitialised', F_LISX0)
            return None, None
        obs = assign(True)
        if -1 in obs and p.indirect:
            obs = assign(False)
        if p.indirect:
            xbad = [(r, j, float(data[0][r])) for r, j in enumerate(obs) if j >= 0 and not okx[r][j]]
    # ---- the selected frames, exactly
    if -1 in obs:
        r = obs.index(-1)
        v.fail(f'{tag}: row {r} of the LAS file equals no source frame within half a unit of the last printed decimal '
               f'(format {ff}, reduction {red})')
        return obs, None
    if want_rows is not None:
        if obs != want_rows:
            negstep = sel[3] is not None and sel[3] < 0
            if in_drop and obs == want_rows[:-1]:
                v.fail(f'{tag}: last selected frame {want_rows[-1]} missing (rows {_short(obs)} of {_short(want_rows)})', F_DROP)
            elif negstep and fam == 'BIT' and obs == bit_sliced_rows(sel, n):
                v.fail(f'{tag}: negative step: rows {_short(obs)} written of the selected {_short(want_rows)}', F_NEGBIT)
            elif negstep and fam == 'LIS' and obs == sorted(lis_frame_range(sel, n)) and not lis_shares_record(p, obs):
                v.fail(f'{tag}: negative step: rows {_short(obs)} written (ascending) of the selected {_short(want_rows)}', F_NEGLIS)
                return obs, None           # order / X / well section of such a file are not examined further
            else:
                v.fail(f'{tag}: rows written {_short(obs)} != frames selected by Python slicing {_short(want_rows)}')
                return obs, None
    else:
        N = sel[1]
        bad = None
        if len(obs) > N: bad = f'{len(obs)} rows for a sample of {N}'
        elif any(b <= a for a, b in zip(obs, obs[1:])): bad = f'rows not in increasing frame order: {_short(obs)}'
        elif n > 0 and (not obs or obs[0] != 0): bad = f'sample does not start with the first frame: {_short(obs)}'
        if bad:
            v.fail(f'{tag}: {bad}'); return obs, None
    # ---- implied X of LIS rows (F7: stepped slices, records after the first whose first selected frame is not at offset 0)
    if xbad and x_garbage:
        v.fail(f'{tag}: implied X wrong in {len(xbad)} row(s); no requested channel exists and the implied X is uninitialised', F_LISX0)
    elif xbad:
        f7 = _f7_rows(p, obs)
        if all(j in f7 for _r, j, _x in xbad):
            v.fail(f'{tag}: implied X wrong in {len(xbad)} row(s), e.g. frame {xbad[0][1]}: {xbad[0][2]} != {p.cols[0][xbad[0][1], 0]}', F_F7)
        else:
            r, j, x = [t for t in xbad if t[1] not in f7][0]
            v.fail(f'{tag}: X of row {r} (frame {j}) is {x}, source {p.cols[0][j, 0]}')
    # ---- well section
    widx = check_well_section(env, case, p, las, obs, v, tag)
    if sel[0] == 'slice' and (2 <= len(obs) < n or chans):
        v.nontriv.append((fam, case['src'].get('name', 'gen'), n, tuple(obs[:50]), len(obs), tuple(exp_cols[:30]), red, w, ff))
    elif sel[0] == 'sample' and 2 <= len(obs) < n:
        v.nontriv.append((fam, case['src'].get('name', 'gen'), n, 'sample', sel[1], tuple(exp_cols[:30]), red, w, ff))
    return obs, widx


def _short(l):
    return str(l) if len(l) <= 12 else f'[{", ".join(map(str, l[:5]))}, … {len(l)} rows … {", ".join(map(str, l[-3:]))}]'


def lis_rows_written(sel, n):
    """rows the LIS converter writes (for the class predicate of the run-together defect only)"""
    if sel[0] == 'slice':
        if sel[3] is not None and sel[3] < 0:
            # negative step (finding C11-lis-negative-step-unsupported): ascending, when anything is written at all
            return sorted(lis_frame_range(sel, n))
        rows = py_rows(sel, n)
        return rows[:-1] if drop_class(sel, n) else rows
    N = sel[1]
    return list(range(n)) if N >= n else list(range(0, n - N + 1, n // N))


def _f7_rows(p, obs):
    """frames whose implied X the known defect F7 corrupts: every selected frame of a record that is not the first
    selected record and whose first selected frame is not at offset 0 (only for a step > 1)."""
    out = set()
    if not p.indirect or p.rec_of is None or len(obs) < 2 or min(b - a for a, b in zip(obs, obs[1:])) < 2:
        return out
    first_rec = p.rec_of[obs[0]][0]
    bad_rec = {}
    for j in obs:
        rec, off = p.rec_of[j]
        if rec not in bad_rec:
            bad_rec[rec] = (rec != first_rec and off != 0)
        if bad_rec[rec]:
            out.add(j)
    return out


def check_well_section(env, case, p, las, obs, v, tag):
    """STRT/STOP/STEP describe first X, last X and mean spacing of the rows actually written."""
    fam, ff = case['fam'], case['ff']
    if not obs:
        return None
    d = decimals(ff)
    xs = p.cols[0][:, 0]
    x0, x1 = float(xs[obs[0]]), float(xs[obs[-1]])
    if fam == 'LIS':
        x0, x1 = float(p.to_optical(x0)), float(p.to_optical(x1))
    mag = max(abs(x0), abs(x1))
    tol = mag * 2.0 ** -21 + (0.5 * 10.0 ** (-d) * (1 + 1e-9) if fam == 'LIS' else 0.0)
    strt, stop = as_float(wsd(las, 'STRT')), as_float(wsd(las, 'STOP'))
    step_m = 'STEP'
    if wsd(las, 'STEP') is None and wsd(las, 'STRP') is not None and fam == 'BIT':
        v.fail(f'{tag}: well section has the mnemonic STRP where STEP is required', F_STRP)
        step_m = 'STRP'
    step = as_float(wsd(las, step_m))
    whole = (obs[0] == 0 and obs[-1] == p.n - 1)
    # LIS: a pass whose frames all lie in one data record has no RLE frame spacing: STOP and STEP print as 0
    single = fam == 'LIS' and p.rec_of is not None and len({r for r, _o in p.rec_of}) == 1
    probs = []        # (mnemonic, got, expected, finding or None)
    if strt is None or abs(strt - x0) > tol:
        probs.append(('STRT', strt, x0, F_LISW if (fam == 'LIS' and obs[0] != 0) else None))
    if stop is None or abs(stop - x1) > tol:
        probs.append(('STOP', stop, x1, F_LIS1 if (single and stop == 0.0) else F_LISW if (fam == 'LIS' and obs[-1] != p.n - 1) else None))
    if len(obs) > 1:
        mean = (x1 - x0) / (len(obs) - 1)
        stol = 2 * tol / (len(obs) - 1) + abs(mean) * 2.0 ** -18 + (0.5 * 10.0 ** (-d) * (1 + 1e-9) if fam == 'LIS' else 0.0)
        if step is None or abs(step - mean) > stol:
            probs.append(('STEP', step, mean, F_LIS1 if (single and step == 0.0) else F_LISW if (fam == 'LIS' and not whole) else None))
    for finding in sorted({f for _m, _g, _e, f in probs}, key=str):
        text = ', '.join(f'{m}={g} but rows written give {e:.9g}' for m, g, e, f in probs if f == finding)
        v.fail(f'{tag}: well section does not describe the rows written (frames {obs[0]}..{obs[-1]} of {p.n}): {text}', finding)
    return (nearest_index(xs, strt if fam != 'LIS' else _from_optical(p, strt, xs)) if strt is not None else -1,
            nearest_index(xs, stop if fam != 'LIS' else _from_optical(p, stop, xs)) if stop is not None else -1)


def _from_optical(p, v, xs):
    """invert the (linear) unit conversion numerically on the X range"""
    a, b = float(p.to_optical(0.0)), float(p.to_optical(1.0))
    return (v - a) / (b - a) if b != a else v


# ------------------------------------------------------------------ case generation

def random_selector(rng, n):
    r = rng.random()
    if r < 0.22:
        N = rng.choice([1, 2, 3, 7, max(1, n - 1), max(1, n), n + 1, 2 * n + 3, rng.randint(1, max(1, n)), rng.randint(1, 64)])
        return ['sample', int(N)]
    def bound():
        q = rng.random()
        if q < 0.2: return None
        if q < 0.5: return rng.randint(0, max(0, n))
        if q < 0.7: return rng.randint(-n - 3, -1) if n else -1
        if q < 0.8: return rng.randint(n, n + 50)
        if q < 0.9: return rng.choice([0, n, n - 1, -n, -n - 1, 1])
        return rng.randint(-2 * n - 5, 2 * n + 5)
    if r < 0.38:
        # negative steps are Python slices too: rows in reverse order
        st = -rng.choice([1, 1, 2, 2, 3, 7, max(1, n // 2), n + 1, rng.randint(1, 40)])
        a = rng.choice([None, None, rng.randint(0, max(0, n - 1)), rng.randint(0, max(0, n - 1)), rng.randint(-n - 3, n + 3), -1, n + 5, -n - 10])
        lo = a if isinstance(a, int) and 0 <= a < n else n - 1
        b = rng.choice([None, None, rng.randint(-1, max(0, n - 1)), rng.randint(-n - 3, n + 3), 0, max(-1, lo - rng.randint(0, 30) * (-st)), -n - 1])
        if b == -1 and rng.random() < 0.5:
            b = None                     # a literal -1 is "the last element"; None is "down to the first"
        return ['slice', a, b, st]
    step = rng.choice([None, 1, 1, 2, 2, 3, 3, 4, 5, 7, max(1, n // 2), max(1, n - 1), n + 1, rng.randint(1, max(1, n)), rng.randint(1, 40)])
    a, b = bound(), bound()
    if rng.random() < 0.5 and n > 30:
        # keep most selections short so that many cases fit the budget; still ends anywhere
        a = rng.randint(0, n - 1)
        b = rng.choice([None, min(n + 2, a + rng.randint(0, 40) * (step or 1)), a + rng.randint(0, 30)])
        if rng.random() < 0.3:
            a, b = a - n, (None if b is None else b - n)
    return ['slice', a, b, step]


def random_channels(rng, fam, p):
    r = rng.random()
    if r < 0.45 or not p.names:
        return []
    present = [nm for nm in p.names[1:]] or list(p.names)
    unknown = ['NOPE', 'ZZ9', 'no such', 'x y', '']
    k = rng.choice([1, 1, 2, 3, 5, len(present)])
    pick = [rng.choice(present) for _ in range(min(k, len(present)))]
    if fam == 'LIS':
        pick = [nm.strip() if rng.random() < 0.5 else nm for nm in pick]
    if r < 0.55:
        return [rng.choice(unknown[:4])]                       # non-empty, nothing present
    if rng.random() < 0.4:
        pick.append(rng.choice(unknown[:4]))
    if rng.random() < 0.15:
        pick.append(p.names[0])                               # the X axis named explicitly
    return sorted(set(pick))


def random_case(rng, fam, spec, truth):
    passes = truth[0]
    p = rng.choice(passes) if passes else None
    n = p.n if p else rng.randint(0, 30)
    return {'fam': fam, 'src': spec, 'sel': random_selector(rng, n), 'chans': random_channels(rng, fam, p) if p else [],
            'red': rng.choice(REDUCTIONS), 'w': rng.randint(8, 24), 'ff': '.%df' % rng.randint(1, 6)}


# ------------------------------------------------------------------ the model side

def model_request(fam, sel, n, p=None):
    if fam == 'LIS' and sel[0] == 'slice':
        o = lambda x: 'N' if x is None else str(x)
        fpr = ','.join(map(str, lis_fpr(p))) if (p is not None and p.rec_of) else '-'
        return f'lis_slice {o(sel[1])} {o(sel[2])} {o(sel[3])} {n} {fpr}'
    op = {'RP66V1': 'rp66_', 'LIS': 'lis_' if sel[0] == 'slice' else 'conv_', 'BIT': 'bit_' if sel[0] == 'slice' else 'conv_'}[fam] + sel[0]
    if sel[0] == 'slice':
        o = lambda x: 'N' if x is None else str(x)
        return f'{op} {o(sel[1])} {o(sel[2])} {o(sel[3])} {n}'
    return f'{op} {sel[1]} {n}'


def parse_model(reply):
    """'ok rows=1,2 strt=0 stop=2' -> (rows, strt, stop)"""
    if not reply.startswith('ok ') or '=' not in reply:
        return None, None, None
    kv = dict(t.split('=', 1) for t in reply[3:].split(' '))
    rows = [] if kv['rows'] == '-' else [int(t) for t in kv['rows'].split(',')]
    return rows, (int(kv['strt']) if 'strt' in kv else None), (int(kv['stop']) if 'stop' in kv else None)


# ------------------------------------------------------------------ driver of a batch of cases

_WORK = {}          # inherited by forked workers: env, truths, scratch


def _one_case(case):
    """Convert + evaluate one case (in a worker or in-process). Returns a picklable summary of the Verdict:
    (fails, nontriv, [(pass index in the truth, observed rows, (STRT idx, STOP idx))])."""
    env, truths, scratch = _WORK['env'], _WORK['truths'], _WORK['scratch']
    path, truth = truths[json.dumps(case['src'], sort_keys=True)]
    outdir = os.path.join(scratch, 'out_%d' % os.getpid())
    v = Verdict()
    try:
        res, outs = run_converter(env, case, path, outdir)
    except Exception as e:       # the converter must report, not raise
        v.fail(f'single_*_to_las raised {type(e).__name__}: {str(e)[:200]}')
        res = None
    if res is not None:
        evaluate_case(env, case, truth, res, outs, outdir, v)
    passes = truth[0]
    seen = [([i for i, q in enumerate(passes) if q is p][0], obs, widx) for p, obs, widx in v.seen]
    return v.fails, v.nontriv, seen


def _init_worker():
    logging.disable(logging.CRITICAL)
    warnings.simplefilter('ignore')


def run_cases(ctx, env, cases, truths, record=True, jobs=None):
    """Runs the cases (in forked workers when there are many); returns one Verdict per case, in order."""
    _WORK.update(env=env, truths=truths, scratch=ctx.scratch)
    if jobs is None:
        jobs = min(12, os.cpu_count() or 1) if len(cases) >= 64 else 1
    if jobs > 1:
        import multiprocessing
        with multiprocessing.get_context('fork').Pool(jobs, initializer=_init_worker) as pool:
            results = pool.map(_one_case, cases, chunksize=8)
    else:
        results = [_one_case(c) for c in cases]
    pending, verdicts = [], []      # pending: (case, model request, impl string, xinfo) for the correspondence
    strp_seen = set()
    for case, (fails, nontriv, seen) in zip(cases, results):
        key = json.dumps(case['src'], sort_keys=True)
        truth = truths[key][1]
        v = Verdict()
        v.nontriv = nontriv
        for detail, finding in fails:
            if finding == F_STRP:            # every BIT conversion has it: report once per source file
                if key in strp_seen:
                    continue
                strp_seen.add(key)
            v.fail(detail, finding)
        verdicts.append(v)
        ctx.count('oracle_cases'); ctx.count('cases_' + case['fam'])
        if record:
            if not v.fails:
                ctx.count('cases_without_any_failure')
            for detail, finding in v.fails:
                ctx.fail(case, detail, finding)
                ctx.count('tagged_' + finding if finding else 'untagged')
            for k in v.nontriv:
                ctx.nontriv(k)
        for pi, obs, widx in seen:
            p = truth[0][pi]
            impl = ('ok ' + obs) if isinstance(obs, str) else 'rows=' + ','.join(map(str, obs))
            xinfo = (p.cols[0][:, 0], widx) if (case['fam'] == 'RP66V1' and obs and widx is not None) else None
            pending.append((case, model_request(case['fam'], case['sel'], p.n, p), impl, xinfo))
    # one model call for the whole batch
    if pending and getattr(ctx, 'model_available', True):
        replies = ctx.lean([q for _c, q, _i, _x in pending])
        for (case, q, impl, xinfo), rep in zip(pending, replies):
            rows, strt, stop = parse_model(rep)
            model = ('rows=' + ','.join(map(str, rows))) if rows is not None else rep
            if xinfo is not None and rows:
                xs, (si, ti) = xinfo
                model += f' strt={nearest_index(xs, float(xs[strt]))} stop={nearest_index(xs, float(xs[stop]))}'
                impl += f' strt={si} stop={ti}'
            ctx.corr('rows_' + case['fam'], {'case': case, 'request': q}, impl, model)
    return verdicts


def load_sources(ctx, env):
    prov = all_providers()
    truths, specs = {}, {f: [] for f in FAMS}
    for fam in FAMS:
        for pr in prov.get(fam, []):
            for spec in pr(env, fam, ctx.rng, ctx.tier):
                key = json.dumps(spec, sort_keys=True)
                if key in truths:
                    continue
                try:
                    path = materialise(spec, ctx.scratch)
                    truth = read_truth(env, fam, path)
                except Exception as e:
                    ctx.count('sources_unreadable')
                    ctx.note(f'source skipped (the repository reader raised {type(e).__name__}): {key[:120]}')
                    continue
                truths[key] = (path, truth)
                specs[fam].append(spec)
                ctx.count('sources_' + fam)
    return truths, specs


def run(ctx):
    logging.disable(logging.CRITICAL)
    warnings.simplefilter('ignore')
    try:
        _run(ctx)
    finally:
        logging.disable(logging.NOTSET)


def _run(ctx):
    env = Env()
    rng = ctx.rng
    truths, specs = load_sources(ctx, env)
    cases, directed = [], []
    per_source = {'RP66V1': ctx.n(90, 300), 'LIS': ctx.n(110, 360), 'BIT': ctx.n(80, 200)}
    for fam in FAMS:
        for spec in specs[fam]:
            truth = truths[json.dumps(spec, sort_keys=True)][1]
            k = per_source[fam]
            if spec['kind'] == 'example' and truth[0] and max(p.n for p in truth[0]) > 900:
                k = max(6, k // 2)              # the two big files are slow to convert
            for _ in range(k):
                cases.append(random_case(rng, fam, spec, truth))
            # directed: the whole file, the defect witnesses, and an empty selection
            for sel in (['slice', None, None, None], ['slice', 4, 5, 6], ['slice', None, None, 3], ['slice', 5, 5, 1], ['sample', 7],
                        ['slice', 40, 10, -2], ['slice', 25, None, -1], ['slice', None, None, -3], ['slice', -100000, None, -2]):
                directed.append({'fam': fam, 'src': spec, 'sel': sel, 'chans': [], 'red': 'first', 'w': 16, 'ff': '.3f'})
    cases = directed + cases
    # exhaustive slice scope on a tiny generated BIT file (one pass)
    tiny = {'fam': 'BIT', 'kind': 'gen', 'desc': random_bit_desc(rng, tiny=True)}
    key = json.dumps(tiny, sort_keys=True)
    path = materialise(tiny, ctx.scratch)
    truths[key] = (path, read_truth(env, 'BIT', path))
    n = truths[key][1][0][0].n
    vals = [None] + list(range(-n - 1, n + 2))
    ex = 0
    for a in vals:
        for b in vals:
            for c in [None] + list(range(1, n + 2)) + list(range(-(n + 1), 0)):
                cases.append({'fam': 'BIT', 'src': tiny, 'sel': ['slice', a, b, c], 'chans': [], 'red': 'first', 'w': 12, 'ff': '.4f'})
                ex += 1
    for N in range(1, n + 3):
        cases.append({'fam': 'BIT', 'src': tiny, 'sel': ['sample', N], 'chans': [], 'red': 'first', 'w': 12, 'ff': '.4f'})
    ctx.extra['exhaustive'] = True
    ctx.extra['exhaustive_scope'] = f'BIT, generated file with one pass of n={n} frames: every slice with start/stop in -{n+1}..{n+1} or None, step 1..{n+1}, -{n+1}..-1 or None ({ex} conversions), every sample size 1..{n+2}'
    run_cases(ctx, env, cases, truths)
    for c in cases[:3] + cases[len(cases) // 3: len(cases) // 3 + 2]:
        ctx.sample({k: (v if k != 'src' else {kk: vv for kk, vv in v.items() if kk not in ('desc', 'req')}) for k, v in c.items()})
    ctx.count('cases_total', len(cases))


def search(ctx):
    """extra oracle budget when a proof / the correspondence broke and no failing input was found yet"""
    logging.disable(logging.CRITICAL)
    try:
        env = Env()
        truths, specs = load_sources(ctx, env)
        cases = []
        for fam in FAMS:
            for spec in specs[fam]:
                truth = truths[json.dumps(spec, sort_keys=True)][1]
                if truth[0] and max(p.n for p in truth[0]) > 900:
                    continue
                for _ in range(60):
                    cases.append(random_case(ctx.rng, fam, spec, truth))
        run_cases(ctx, env, cases, truths)
    finally:
        logging.disable(logging.NOTSET)


def replay(ctx, rec):
    case = rec['case']
    if not isinstance(case, dict) or 'fam' not in case:
        return True, 'nothing to replay (no concrete failing input was recorded)'
    logging.disable(logging.CRITICAL)
    warnings.simplefilter('ignore')
    try:
        env = Env()
        path = materialise(case['src'], ctx.scratch)
        truth = read_truth(env, case['fam'], path)
        ctx.model_available = False
        v = run_cases(ctx, env, [case], {json.dumps(case['src'], sort_keys=True): (path, truth)}, record=False)[0]
    finally:
        logging.disable(logging.NOTSET)
    import core
    known = core.load_known('C11')
    bad = [(d, f) for d, f in v.fails if f is None or f not in known]
    if bad:
        return False, bad[0][0]
    if v.fails:
        return True, 'only listed known findings on this case: ' + '; '.join(sorted({f for _d, f in v.fails}))
    return True, 'conversion keeps exactly the selected frames, channels and values on this case'
