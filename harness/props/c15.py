"""C15 — Frame slice and sample selectors select what they say (TotalDepth/common/Slice.py)."""
import itertools, re

CLAIM = {
 'text': ('Lean 4 theorems for all n, start, stop, step>=1 and all sample sizes (slice_indices_eq_python, '
          'slice_reports_agree, sample_eq_spec, sample_count, sample_shape, parse_* lemmas) about a model of '
          'common/Slice.py; the model is tied to the source on every run by an exhaustive small-scope + random '
          'correspondence with the real Slice/Sample/create_slice_or_sample. Proof is the right level: the property is '
          'pure integer arithmetic quantified over unbounded n.'),
 'note': ('Trusted: Lean kernel; model<->code correspondence on the cases of the run; builtin slice.indices/range/int are '
          'modelled (CPython arithmetic transcribed), not verified. Option strings restricted to ASCII.'),
 'technique': 'Lean 4 proof (induction, omega) + model-implementation correspondence',
 'design_ref': 'DESIGN.md section 6 C15',
}

ANCHOR_FILES = ['src/TotalDepth/common/Slice.py']
RULE = ('slice: exhaustive (n, start, stop, step) over a small scope + random large n; sample: all (N, n) in a grid + '
        'random large; option strings from a grammar + a malformed stream. A case is non-trivial when it selects at '
        'least 2 indices and fewer than n (slice/sample) or is an accepted/rejected option string class; distinct by '
        '(kind, selected index tuple) resp. (class, string).')
ASSUMPTIONS = ['Python list slicing xs[a:b:c] is the reference for "the indices Python slicing selects"',
               'option strings are ASCII (Python int() also accepts non-ASCII digits/whitespace; not generated)']
TRUSTED = ['modelled, not verified: builtin slice.indices()/range()/int() — replaced by sliceAdjust/rangeList/pyInt in the model '
           'and compared on every generated case']


def _impl():
    from TotalDepth.common import Slice
    return Slice


def _o(v):
    return 'N' if v is None else str(v)


def impl_slice(S, a, b, c, n):
    try:
        s = S.Slice(a, b, c)
        idx = s.indices(n)
        m = re.match(r'<Slice on length=(-?\d+) start=(-?\d+) stop=(-?\d+) step=(-?\d+)>', s.long_str(n))
        adj = f'{m.group(2)},{m.group(3)},{m.group(4)}'
        gen = list(s.gen_indices(n))
        out = f'ok adj={adj} count={s.count(n)} first={s.first(n)} step={s.step(n)} last={s.last(n)} idx={",".join(map(str, idx))}'
        return out, (idx, gen, s.count(n), s.first(n), s.step(n))
    except ValueError:
        return 'err ValueError', None
    except TypeError:
        return 'err TypeError', None


def impl_sample(S, s, n):
    try:
        x = S.Sample(s)
        idx = x.indices(n)
        gen = list(x.gen_indices(n))
        return (f'ok count={x.count(n)} first={x.first(n)} step={x.step(n)} idx={",".join(map(str, idx))}',
                (idx, gen, x.count(n), x.first(n)))
    except ValueError:
        return 'err ValueError', None


def impl_parse(S, text):
    try:
        r = S.create_slice_or_sample(text)
    except ValueError:
        return 'err ValueError'
    except TypeError:
        return 'err TypeError'
    if isinstance(r, S.Slice):
        sl = r._slice
        return f'ok slice {_o(sl.start)} {_o(sl.stop)} {_o(sl.step)}'
    return f'ok sample {r._sample_size}'


def oracle_slice(ctx, a, b, c, n, res):
    """Property on the implementation alone: Python slicing semantics and agreeing reports (step >= 1)."""
    case = {'op': 'slice', 'start': a, 'stop': b, 'step': c, 'n': n}
    ctx.count('oracle_cases')
    if res is None:
        ctx.fail(case, 'Slice raised for a non-zero step'); return
    idx, gen, count, first, step = res
    want = list(range(n))[a:b:c]
    if idx != want:
        ctx.fail(case, f'indices {idx[:8]}.. != Python slicing {want[:8]}..'); return
    if gen != idx or count != len(idx) or (idx and first != idx[0]) or step != (1 if c is None else c):
        ctx.fail(case, f'reports disagree: count={count} first={first} step={step} gen={gen[:8]} idx={idx[:8]}'); return
    if 2 <= len(idx) < n:
        ctx.nontriv(('slice', n, tuple(idx)))


def oracle_sample(ctx, s, n, res):
    case = {'op': 'sample', 'N': s, 'n': n}
    ctx.count('oracle_cases')
    if res is None:
        ctx.fail(case, 'Sample raised for N >= 1'); return
    idx, gen, count, first = res
    bad = None
    if len(idx) != min(s, n): bad = f'selects {len(idx)} indices, expected min(N,n)={min(s, n)}'
    elif any(y <= x for x, y in zip(idx, idx[1:])): bad = 'indices not strictly increasing'
    elif idx and idx[0] != 0: bad = f'does not begin with 0: {idx[:4]}'
    elif idx and not (0 <= idx[0] and idx[-1] < n): bad = 'index out of range'
    elif gen != idx or count != len(idx) or (idx and first != idx[0]): bad = f'reports disagree: count={count} first={first}'
    else:
        gaps = {y - x for x, y in zip(idx, idx[1:])}
        if gaps and max(gaps) - min(gaps) > 1: bad = f'gaps differ by more than one: {sorted(gaps)}'
    if bad:
        ctx.fail(case, bad); return
    if 2 <= len(idx) < n:
        ctx.nontriv(('sample', n, s))


INT_OK = ['0', '1', '7', '12', '-1', '-13', '+4', '100', '65536', '-0', '007']
NONE_OK = ['', 'None']


def gen_option_strings(ctx):
    """yield (text, expected) where expected is ('slice',a,b,c) / ('sample',n) / 'reject' / None (correspondence only)."""
    rng = ctx.rng
    pad = lambda s: rng.choice(['', ' ', '  ', '\t']) + s + rng.choice(['', ' ', '  '])
    def part():
        if rng.random() < 0.35:
            return rng.choice(NONE_OK), None
        t = rng.choice(INT_OK) if rng.random() < 0.5 else str(rng.randint(-10**rng.randint(1, 12), 10**rng.randint(1, 12)))
        return t, int(t)
    for _ in range(ctx.n(1500, 20000)):
        ps = [part() for _ in range(3)]
        yield ','.join(pad(p[0]) for p in ps), ('slice',) + tuple(p[1] for p in ps)
    for _ in range(ctx.n(500, 5000)):
        v = rng.choice([1, 2, 9, 64, 10**6]) if rng.random() < 0.3 else rng.randint(1, 10**rng.randint(1, 9))
        yield pad(str(v)) if rng.random() < 0.5 else str(v), ('sample', v)
    # malformed: wrong number of parts
    for k in (1, 3, 4, 5):
        for _ in range(ctx.n(100, 1000)):
            yield ','.join(part()[0] for _ in range(k + 1)), 'reject'
    # malformed: non-integers
    junk = ['a', '1.5', '1e3', '0x10', '--1', '1 2', 'none', 'NONE', 'Nonee', '+', '-', '1-', 'nan', 'inf', '1,', '1__0', '_1', '1_']
    for j in junk:
        if ',' not in j:
            yield j, 'reject'
        for pos in range(3):
            ps = [part()[0] for _ in range(3)]; ps[pos] = j
            if ',' not in j:
                yield ','.join(ps), 'reject'
    # malformed: near misses of the accepted tokens (substrings / case variants / doubled characters of 'None' and of integers)
    near = set()
    for tok in ('None', '12', '-7', '+3'):
        for i in range(len(tok)):
            for j in range(i + 1, len(tok) + 1):
                near.add(tok[i:j])
        near.update({tok.lower(), tok.upper(), tok + tok[-1], tok[0] + tok, tok[::-1], tok.replace('o', '0'), ' '.join(tok)})
    def _valid_part(t):
        t = t.strip()
        if t in ('', 'None'):
            return True
        try:
            int(t); return True
        except ValueError:
            return False
    for t in sorted(near):
        if ',' in t or _valid_part(t):
            continue
        for pos in range(3):
            ps = [part()[0] for _ in range(3)]; ps[pos] = t
            yield ','.join(ps), 'reject'
        yield t, 'reject'
    # special accepted values of each position must denote themselves (-1, 0, 1 as start / stop / step; stop 0 is not "absent")
    for a in ('', 'None', '-1', '0', '1', '-2', '2'):
        for b in ('', 'None', '-1', '0', '1', '-2', '2'):
            for c in ('', 'None', '1', '2', '-1'):
                cv = lambda t: None if t in ('', 'None') else int(t)
                yield f'{a},{b},{c}', ('slice', cv(a), cv(b), cv(c))
    # sample size below one
    for v in ('0', '-1', '-0', '-100', ' 0', '00'):
        yield v, 'reject'
    # accepted by int() but unusual: correspondence only
    for t in ('1_0', '1_000,2,3', ' 5 ', '\t7\n', '\x0b3', '1,\x1f2,3'):
        yield t, None
    yield '', 'reject'


def run(ctx):
    S = _impl()
    rng = ctx.rng
    # ---------------- slices: exhaustive small scope
    N = ctx.n(9, 20)
    vals = [None] + list(range(-(N + 2), N + 3))
    # negative steps are outside C15's stated quantifier (step in 1..N) but are what Python slicing allows and what the
    # users of Slice (C04, C11) can be handed: they are oracle-checked too, on a smaller grid
    steps = [None] + list(range(1, N + 3)) + [-1, -2, -3, -(N + 1)]
    req, cases = [], []
    for n in range(0, N + 1):
        for a in vals:
            for b in vals:
                for c in steps:
                    cases.append((a, b, c, n))
    # steps the property does not quantify over (0, negative): correspondence only
    extra = []
    for n in (0, 1, 5, N):
        for a in vals[::3]:
            for b in vals[::3]:
                for c in (0, -1, -2, -7):
                    extra.append((a, b, c, n))
    # random large
    big = []
    for _ in range(ctx.n(3000, 60000)):
        n = rng.choice([rng.randint(0, 50), rng.randint(50, 5000), rng.randint(5000, 10**6)])
        r = lambda: None if rng.random() < 0.15 else rng.randint(-n - 5, n + 5)
        c = None if rng.random() < 0.1 else rng.choice([1, 2, 3, rng.randint(1, max(1, n)), rng.randint(1, 50)])
        if n > 20000 and c is not None and c < n // 20000 + 1:
            c = n // 20000 + 1   # keep index lists short
        elif n > 20000 and c is None:
            c = n // 20000 + 1
        big.append((r(), r(), c, n))
    allc = cases + extra + big
    model = ctx.lean([f'slice {_o(a)} {_o(b)} {_o(c)} {n}' for a, b, c, n in allc])
    for k, ((a, b, c, n), m) in enumerate(zip(allc, model)):
        out, res = impl_slice(S, a, b, c, n)
        ctx.corr('slice', {'op': 'slice', 'start': a, 'stop': b, 'step': c, 'n': n}, out, m)
        if c is None or c != 0:
            oracle_slice(ctx, a, b, c, n, res)
    ctx.extra['exhaustive'] = True
    ctx.extra['exhaustive_scope'] = f'slice: n<=%d, start/stop in -%d..%d or None, step in 1..%d or None (%d cases)' % (N, N + 2, N + 2, N + 2, len(cases))
    ctx.sample({'op': 'slice', 'args': allc[len(allc) // 2], 'model_reply': model[len(allc) // 2]})
    # ---------------- one selector OBJECT applied to sequences of different lengths (as the converters do with one
    # --frame-slice across frame types): every answer must be a function of (selector, n) only
    for _ in range(ctx.n(1500, 15000)):
        r = lambda hi: None if rng.random() < 0.3 else rng.randint(-hi, hi)
        a, b = r(40), r(40)
        c = None if rng.random() < 0.2 else rng.choice([1, 2, 3, 5, -1, -2, -3])
        lens = [rng.randint(0, 45) for _ in range(rng.randint(2, 6))]
        ctx.count('oracle_cases'); ctx.count('reuse_cases')
        try:
            obj = S.Slice(a, b, c)
            for n in lens:
                g = obj.gen_indices(n); next(g, None)             # abandoned generator
                want = list(range(n))[a:b:c]
                pick = rng.randrange(5)       # vary which report is asked first on this length
                first = [obj.count, obj.first, obj.step, lambda m: list(obj.gen_indices(m)), obj.long_str][pick](n)
                got = obj.indices(n)
                if got != want or obj.count(n) != len(want) or list(obj.gen_indices(n)) != want or (want and obj.first(n) != want[0]):
                    ctx.fail({'op': 'slice_reuse', 'start': a, 'stop': b, 'step': c, 'lens': lens, 'first_call': pick},
                             f'one Slice object reused on lengths {lens}: at n={n} indices {got[:8]} count {obj.count(n)}, Python slicing gives {want[:8]}')
                    break
        except Exception as e:
            ctx.fail({'op': 'slice_reuse', 'start': a, 'stop': b, 'step': c, 'lens': lens, 'first_call': 0}, f'raised {type(e).__name__}: {e}')
        sN = rng.randint(1, 30)
        try:
            smp = S.Sample(sN)
            # generators that are abandoned half way, or run side by side, must not disturb later answers
            n0 = rng.randint(0, 45)
            g1, g2 = smp.gen_indices(n0), smp.gen_indices(n0)
            for _k in range(rng.randint(0, 4)):
                next(g1, None)
                if rng.random() < 0.5:
                    next(g2, None)
            rest = list(g2)
            for n in [n0] + lens:
                idx = smp.indices(n)
                fresh = S.Sample(sN).indices(n)
                if idx != fresh:
                    ctx.fail({'op': 'sample_reuse', 'N': sN, 'lens': [n0] + lens},
                             f'a Sample object with a history (abandoned generators, other lengths) selects {idx[:8]} at n={n}, a fresh Sample({sN}) selects {fresh[:8]}')
                    break
                if len(idx) != min(sN, n) or smp.count(n) != len(idx) or list(smp.gen_indices(n)) != idx or (idx and idx[0] != 0) or any(y <= x for x, y in zip(idx, idx[1:])):
                    ctx.fail({'op': 'sample_reuse', 'N': sN, 'lens': lens}, f'one Sample object reused on lengths {lens}: at n={n} got {idx[:8]}')
                    break
        except Exception as e:
            ctx.fail({'op': 'sample_reuse', 'N': sN, 'lens': lens}, f'raised {type(e).__name__}: {e}')
    # ---------------- samples
    M = ctx.n(40, 120)
    sc = [(s, n) for s in range(1, M + 1) for n in range(0, M + 20)]
    for _ in range(ctx.n(1500, 20000)):
        n = rng.randint(0, 10**rng.randint(1, 7))
        s = rng.randint(1, min(max(1, n * 2), 3000))
        sc.append((s, n))
    model = ctx.lean([f'sample {s} {n}' for s, n in sc])
    for (s, n), m in zip(sc, model):
        out, res = impl_sample(S, s, n)
        ctx.corr('sample', {'op': 'sample', 'N': s, 'n': n}, out, m)
        oracle_sample(ctx, s, n, res)
    ctx.sample({'op': 'sample', 'args': sc[777], 'model_reply': model[777]})
    # sample size below one must be refused
    for s in (0, -1, -5):
        ctx.count('oracle_cases')
        try:
            S.Sample(s); ctx.fail({'op': 'sample_ctor', 'N': s}, 'Sample size below one accepted')
        except ValueError:
            pass
    # ---------------- option strings
    strs = list(gen_option_strings(ctx))
    model = ctx.lean(['parse ' + (t.encode('utf-8').hex() or '-') if t.isascii() else 'parse ' + t.encode('utf-8').hex() for t, _ in strs])
    for (t, exp), m in zip(strs, model):
        out = impl_parse(S, t)
        if t.isascii():
            ctx.corr('parse', {'op': 'parse', 'text': t}, out, m)
        if exp is None:
            continue
        ctx.count('oracle_cases')
        if exp == 'reject':
            ok = out.startswith('err ValueError')
            cls = 'reject'
        elif exp[0] == 'slice':
            ok = out == f'ok slice {_o(exp[1])} {_o(exp[2])} {_o(exp[3])}'
            cls = 'slice'
        else:
            ok = out == f'ok sample {exp[1]}'
            cls = 'sample'
        if not ok:
            ctx.fail({'op': 'parse', 'text': t}, f'expected {exp}, got {out}')
        else:
            ctx.nontriv(('parse', cls, t))
    ctx.sample({'op': 'parse', 'text': strs[3][0], 'expected': strs[3][1]})
    ctx.count('slice_cases', len(allc)); ctx.count('sample_cases', len(sc)); ctx.count('parse_cases', len(strs))


def replay(ctx, rec):
    S = _impl()
    case = rec['case']
    n0 = len(ctx.failures)
    if case.get('op') == 'slice':
        out, res = impl_slice(S, case['start'], case['stop'], case['step'], case['n'])
        oracle_slice(ctx, case['start'], case['stop'], case['step'], case['n'], res)
    elif case.get('op') == 'sample':
        out, res = impl_sample(S, case['N'], case['n'])
        oracle_sample(ctx, case['N'], case['n'], res)
    elif case.get('op') == 'slice_reuse':
        obj = S.Slice(case['start'], case['stop'], case['step'])
        for n in case['lens']:
            want = list(range(n))[case['start']:case['stop']:case['step']]
            try:
                [obj.count, obj.first, obj.step, lambda m: list(obj.gen_indices(m)), obj.long_str][case.get('first_call', 0)](n)
                got = obj.indices(n)
            except Exception as e:
                return False, f'raised {type(e).__name__}: {e}'
            if got != want or obj.count(n) != len(want):
                return False, f'at n={n}: {got[:8]} (count {obj.count(n)}) vs Python slicing {want[:8]}'
        return True, 'object reuse gives Python slicing on every length'
    elif case.get('op') == 'sample_reuse':
        smp = S.Sample(case['N'])
        import itertools as _it
        for n in case['lens']:
            list(_it.islice(smp.gen_indices(n), 2))      # an abandoned generator must not matter
            idx = smp.indices(n)
            if idx != S.Sample(case['N']).indices(n):
                return False, f'at n={n}: object with a history selects {idx[:8]}, a fresh one {S.Sample(case["N"]).indices(n)[:8]}'
            if len(idx) != min(case['N'], n) or smp.count(n) != len(idx):
                return False, f'at n={n}: {idx[:8]}'
        return True, 'object reuse ok'
    elif case.get('op') == 'parse':
        out = impl_parse(S, case['text'])
        return True, f'parse result now: {out} (recorded: {rec.get("detail")})'
    else:
        return True, 'nothing to replay (no concrete failing input was recorded)'
    if len(ctx.failures) > n0:
        return False, ctx.failures[-1]['detail']
    return True, out
