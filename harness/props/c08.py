"""C08 — LIS tables and data format specifications survive encode then decode
(TotalDepth/LIS/core/LogiRec.py: CbEngVal*, LrTable*, EntryBlockSet, DatumSpecBlock*, LrDFSRRead)."""
import fractions, io, logging, math, struct

CLAIM = {
 'text': ('Lean 4 theorems, for all tables and all format specifications in the stated domain, about a branch-for-branch '
          'model of CbEngValWrite/CbEngVal.lisBytes/CbEngValRead, LrTableWrite/LrTable.genLisBytes/LrTableRead, '
          'EntryBlockSet (defaults, setEntryBlock, _setLisSizeEven, lisBytes, readFromFile), DatumSpecBlockRead and '
          'LrDFSRRead: cb_roundtrip, table_roundtrip (name block, rows = first-kept rows in order, every cell type/code/size/'
          'mnemonic/units/value, row index, column labels), table_roundtrip_exact, dupe_rows_first_kept (+ kept_sublist, '
          'kept_names_distinct, kept_covers), ebs_roundtrip for every legal entry block set and ebs_subset_legal (every list '
          'of setEntryBlock calls from the defaults, hence every subset of the 16 settable blocks), ebs_even_length, '
          'bursts_spec, dsb_roundtrip, dfsr_roundtrip, f68_roundtrip (code-68 representable floats are fixed points). The '
          'model is tied to the source on every run: random and boundary tables / format specifications are written by the '
          'real code and by the model (bytes and writer state compared), decoded by both through physical records (complete '
          'decoded state compared), plus hand-assembled and malformed block streams; an oracle that does not use the model '
          'checks the decoded objects against the generated content. Proof is the right level: the property quantifies over '
          'unbounded table shapes and all 2^16 entry-block subsets.'),
 'note': ('Trusted: Lean kernel; model<->code correspondence on the cases of the run; struct.pack/unpack, dict and the '
          'physical-record layer (C05) are modelled as a flat logical-data byte stream. Floats are exact dyadics; the '
          'general float cell is proved to decode to from68(to68(v)); |from68(to68 v) - v| <= 2^-22 |v| is checked by the oracle '
          'and is the subject of C07, not proved here. Domain restrictions made explicit in the theorems: 4-byte distinct '
          'column mnemonics, 4-byte units, byte cells <= 255 long, finite floats below the code-68 overflow clamp, DSB type '
          'entry block = 0. The two defects found while building the check (empty last text cell read as None; numeric cell '
          'in a MNEM column raising TypeError) were repaired in /repo; both input classes are still generated on every run and '
          'a recurrence is an unlisted oracle failure.'),
 'technique': 'Lean 4 proof (structural induction over rows/blocks, omega) + model-implementation correspondence',
 'design_ref': 'DESIGN.md section 6 C08',
}

ANCHOR_FILES = ['src/TotalDepth/LIS/core/LogiRec.py', 'src/TotalDepth/LIS/core/RepCode.py', 'src/TotalDepth/LIS/core/pRepCode.py',
                'src/TotalDepth/LIS/core/Mnem.py', 'src/TotalDepth/LIS/core/EngVal.py', 'src/TotalDepth/LIS/core/LisGen.py',
                'src/TotalDepth/LIS/core/File.py', 'src/TotalDepth/LIS/core/PhysRec.py']

RULE = ('tables: random shapes (0..8 rows, 1..7 columns; column mnemonics, row names and table names include near-duplicates that differ only in trailing space/NUL/tab/whitespace, case, a leading blank or a non-ASCII byte, plus a fixed family of such pairs on every run; cells drawn from byte strings of length 0..255, integers at and '
        'around the 8/16/32-bit range boundaries, representable and non-representable floats, optional units, duplicated row '
        'names) written by LrTableWrite and read back through physical records of random length; hand-assembled and '
        'truncated/corrupted component block streams; format specifications: random subsets of the 17 entry block types '
        'with legal (size, code, value) triples, 0..6 channels over all representation codes; exhaustive over all 2^16 '
        'subsets of the 16 settable entry blocks in the thorough tier. A case is non-trivial when it has at least one row and '
        'two columns (table) or at least one explicitly set entry block and one channel (format specification); distinct by '
        'the full generated content.')
ASSUMPTIONS = ['floats are finite (NaN/inf are rejected or clamped by to68 and are not generated)',
               'column mnemonics and units are 4 bytes (struct "4s" NUL-pads/truncates other lengths: modelled and compared, not part of the property)',
               'column mnemonics of one table are distinct (a repeated column name hides the later cell at write time: modelled and compared)',
               'byte cells are at most 255 bytes (the component block size field is one byte)',
               'format specifications have entry block 2 (DSB type) = 0; LrDFSRRead refuses anything else by design',
               'Python assertions are enabled (EntryBlockSet._checkIntegrity is an assert)',
               '|from68(to68(v)) - v| < 2^-22 |v| for frexp exponent in -128..127 is C07\'s theorem to68_error (cited, not re-proved here) and is checked on every float of the run; v <= -2^127 is C07\'s open finding C07-to68-negative-clamp and outside C08\'s domain']
TRUSTED = ['modelled, not verified: struct.pack/unpack of the formats 4B4s4s, BBB, >4s6s8s4sI2h3x2B5x, >h, >i, >I; dict/OrderedDict '
           'insertion order and key equality; File.FileRead.readLrBytes/hasLd over physical records (flat stream in the model)',
           'modelled, not verified: cpRepCode.to68/from68 (C) are modelled by the pRepCode algorithm on exact dyadics and '
           'compared bit-for-bit on every float of the run',
           'rep codes 49, 50, 70 as *cell values* are outside the model (C07) and not generated']

# input classes of the two defects repaired in /repo (kept for the statistics; a recurrence is an unlisted failure)
CLASS_EMPTY = 'empty-last-text-cell'
CLASS_MNEM = 'non-text-cell-in-MNEM-column'

# ----------------------------------------------------------------------------------------------- canonical forms

def fcanon(v):
    """float -> (m, e) with v == m * 2**e, m odd (or (0, 0))."""
    if v == 0:
        return 0, 0
    n, d = v.as_integer_ratio()
    if d == 1:
        tz = (n & -n).bit_length() - 1
        return n >> tz, tz
    return n, -(d.bit_length() - 1)


def hx(b):
    return bytes(b).hex() or '-'


def tok(v):
    if v is None: return 'N'
    if isinstance(v, (bytes, bytearray)): return 'b' + hx(v)
    if isinstance(v, bool): return 'B%d' % v
    if isinstance(v, int): return 'i%d' % v
    if isinstance(v, float):
        m, e = fcanon(v)
        return 'f%dp%d' % (m, e)
    return 'X' + type(v).__name__


def untok(t):
    if t == 'N': return None
    if t[0] == 'b': return b'' if t[1:] == '-' else bytes.fromhex(t[1:])
    if t[0] == 'i': return int(t[1:])
    if t[0] == 'f':
        m, e = t[1:].split('p')
        return math.ldexp(int(m), int(e))
    raise ValueError(t)


def cell_tok(c):
    if isinstance(c, tuple):
        return tok(c[0]) + '@' + hx(c[1])
    return tok(c)


def cell_untok(t):
    if '@' in t:
        v, u = t.split('@')
        return (untok(v), b'' if u == '-' else bytes.fromhex(u))
    return untok(t)


def join_or(sep, l):
    return sep.join(l) if l else '_'


def fam(e):
    """exception -> family name as printed by the Lean driver"""
    from TotalDepth.LIS.core import RepCode
    n = type(e).__name__
    if isinstance(e, RepCode.ExceptionRepCode): return 'ExceptionRepCode'
    if isinstance(e, struct.error): return 'struct.error'
    return n


def show_cb(c):
    v = c.engVal.value if c.engVal is not None else None
    return '%d.%d.%d.%d.%s.%s.%s' % (c.type, c.rc, c.size, c.category, hx(c.mnem), hx(c.units), tok(v))


def show_ts(t):
    T = 'N' if t.tableCbEv is None else show_cb(t.tableCbEv)
    R = join_or('/', [join_or(',', [show_cb(c) for c in r._blocks]) for r in t._rows])
    I = join_or(',', ['%s=%d' % (tok(k), i) for k, i in t._tableRowIndex.items()])
    M = join_or(',', ['%s=%d' % (hx(k.m), i) for k, i in t._mnemRowIndex.items()])
    C = join_or(',', ['%s=%d' % (hx(k), n) for k, n in t._colMnemS.items()])
    return 'T=%s R=%s I=%s M=%s C=%s' % (T, R, I, M, C)


def show_ebs(ebs):
    return join_or(',', ['%d.%d.%d.%s' % (e.type, e.size, e.repCode, tok(e.value)) for e in ebs._ebS])


def show_dsb(d):
    return '%s.%s.%s.%s.%d.%d.%d.%d.%d.%d.%d.%d.%d.%d' % (
        hx(d.mnem), hx(d.servId), hx(d.servOrd), hx(d.units), d.apiLogType, d.apiCurveType, d.apiCurveClass,
        d.apiModifier, d.fileNumber, d.size, d._samples, d.repCode, d._bursts, d.subChannels)


# ----------------------------------------------------------------------------------------------- implementation adapters

def _mods():
    from TotalDepth.LIS.core import LogiRec, RepCode, File, PhysRec, LisGen, Mnem
    return LogiRec, RepCode, File, PhysRec, LisGen, Mnem


def wrap_pr_tests(PhysRec, b, prLen):
    """BaseTestClasses.TestBaseFile.retPrS: physical records without trailers."""
    r = bytearray(); ofs = 0
    while ofs < len(b):
        p = b[ofs:ofs + prLen]
        r.extend(PhysRec.PR_PRH_LEN_FORMAT.pack(PhysRec.PR_PRH_LENGTH + len(p)))
        a = 0
        if ofs + prLen < len(b): a |= 1
        if ofs > 0: a |= 2
        r.extend(PhysRec.PR_PRH_ATTR_FORMAT.pack(a)); r.extend(p); ofs += prLen
    return bytes(r)


def file_of(mods, lr, how):
    """a File.FileRead positioned on the logical record `lr`; how = ('single',) | ('tests', prLen) | ('writer', prLen)"""
    LogiRec, RepCode, File, PhysRec, LisGen, Mnem = mods
    if how[0] == 'writer':
        bio = io.BytesIO()
        w = File.FileWrite(bio, 'w', keepGoing=True, hasTif=False, thePrLen=how[1])
        w.write(lr)
        raw = bio.getvalue()
    elif how[0] == 'tests':
        raw = wrap_pr_tests(PhysRec, lr, how[1])
    else:
        raw = wrap_pr_tests(PhysRec, lr, max(len(lr), 1))
    return File.FileRead(theFile=io.BytesIO(raw), theFileId='C08', keepGoing=True)


def impl_tablew(mods, case):
    """-> (reply line, writer object | None, lr bytes | None)"""
    LogiRec = mods[0]
    name = untok(case['name']); mnems = tuple(bytes.fromhex(m) if m != '-' else b'' for m in case['mnems'])
    rows = tuple(tuple(cell_untok(c) for c in r) for r in case['rows'])
    try:
        t = LogiRec.LrTableWrite(case['lrType'], name, mnems, rows)
    except Exception as e:
        return 'errw ' + fam(e), None, None
    st = show_ts(t)
    try:
        b = bytes([case['lrType'], 0]) + b''.join(bytes(x) for x in t.genLisBytes())
    except Exception as e:
        return 'errb ' + fam(e) + ' ' + st, t, None
    return 'ok ' + hx(b) + ' ' + st, t, b


def impl_table(mods, lr, how):
    LogiRec = mods[0]
    try:
        t = LogiRec.LrTableRead(file_of(mods, lr, how))
    except Exception as e:
        return 'err ' + fam(e), None
    return 'ok ' + show_ts(t), t


def make_ebs(mods, blocks):
    LogiRec = mods[0]
    ebs = LogiRec.EntryBlockSet()
    for b in blocks:
        t, s, r, v = b.split('.', 3)
        try:
            ebs.setEntryBlock(LogiRec.EntryBlock(int(t), int(s), int(r), untok(v)))
        except LogiRec.ExceptionEntryBlock:
            pass
    return ebs


def impl_dfsrw(mods, case):
    LogiRec, RepCode, File, PhysRec, LisGen, Mnem = mods
    try:
        ebs = make_ebs(mods, case['blocks'])
    except Exception as e:
        return 'errs ' + fam(e), None, None
    st = 'E=' + show_ebs(ebs)
    try:
        b = bytearray([64, 0]) + ebs.lisBytes()
        for c in case['chans']:
            n, si, so, u, api, fn, cl, sa, rc = c.split('.')
            unh = lambda x: b'' if x == '-' else bytes.fromhex(x)
            b += LisGen.ChannelSpec(unh(n), unh(si), unh(so), unh(u), int(api), int(fn), int(cl), int(sa), int(rc)).dsbBytes
    except Exception as e:
        return 'errb ' + fam(e) + ' ' + st, ebs, None
    return 'ok ' + hx(b) + ' ' + st, ebs, bytes(b)


def impl_dfsr(mods, lr, how):
    LogiRec = mods[0]
    try:
        d = LogiRec.LrDFSRRead(file_of(mods, lr, how))
    except Exception as e:
        return 'err ' + fam(e), None
    return 'ok E=' + show_ebs(d.ebs) + ' D=' + join_or(',', [show_dsb(x) for x in d.dsbBlocks]), d


# ----------------------------------------------------------------------------------------------- independent reference

def ref68(v):
    """from68(to68(v)) by exact rational arithmetic (independent of the model and of RepCode): truncate v to a
    23-bit two's complement fraction at exponent max(frexp exponent, -128); clamp outside the code-68 range."""
    if v == 0: return 0.0
    F = fractions.Fraction
    _, ex = math.frexp(v)
    if ex <= -151: return 0.0
    if ex > 127:
        return None            # overflow clamp: outside C08's domain (C07)
    x = max(ex, -128)
    scaled = F(v) * F(2) ** (23 - x)
    t = int(scaled)            # truncation toward zero
    return float(F(t) * F(2) ** (x - 23))


LIS_SIZE = {49: 2, 50: 4, 56: 1, 66: 1, 68: 4, 70: 4, 73: 4, 77: 1, 79: 2, 130: 80, 234: 90}


def float_ok(v):
    """floats of the property's domain: finite and below the code-68 overflow clamp (|v| < 2^127)"""
    return math.isfinite(v) and math.frexp(v)[1] <= 127


def exp_value(v):
    return ref68(v) if isinstance(v, float) else v


def first_kept(keys):
    """indices kept when duplicates (Python ==/hash) are dropped with the first kept"""
    seen, out = set(), []
    for i, k in enumerate(keys):
        if k not in seen:
            seen.add(k); out.append(i)
    return out


def table_in_domain(case):
    name = untok(case['name'])
    mn = case['mnems']
    if case['lrType'] not in (32, 34, 39) or not isinstance(name, bytes) or not (1 <= len(name) <= 255): return False
    if not mn or any(len(m) != 8 for m in mn) or len(set(mn)) != len(mn): return False
    for r in case['rows']:
        if len(r) != len(mn): return False
        for c in r:
            c = cell_untok(c)
            v, u = c if isinstance(c, tuple) else (c, None)
            if u is not None and len(u) not in (0, 4): return False
            if isinstance(v, bytes) and len(v) > 255: return False
            if isinstance(v, int) and not (-2 ** 31 <= v < 2 ** 31): return False
            if isinstance(v, float) and not float_ok(v): return False
    return True


def table_finding_class(case):
    """which formerly defective input class (if any) the input belongs to"""
    rows = [[cell_untok(c) for c in r] for r in case['rows']]
    vals = [[(c[0] if isinstance(c, tuple) else c) for c in r] for r in rows]
    mn = case['mnems']
    if '4d4e454d' in mn:
        k = mn.index('4d4e454d')
        if any(not isinstance(r[k], bytes) for r in vals):
            return CLASS_MNEM
    kept = first_kept([r[0] for r in vals]) if vals and mn else []
    if kept and vals[kept[-1]][-1] == b'':
        return CLASS_EMPTY
    return None


def oracle_table(ctx, mods, case, wline, wobj, lr, how):
    """the property on the implementation alone: decoded table == generated content"""
    LogiRec = mods[0]
    ctx.count('oracle_cases')
    cls = table_finding_class(case)
    if cls: ctx.count('cases_' + cls)
    c2 = dict(case, how=list(how))
    if lr is None:
        ctx.fail(c2, 'table in the domain could not be written: ' + wline[:60]); return
    try:
        t = LogiRec.LrTableRead(file_of(mods, lr, how))
    except Exception as e:
        ctx.fail(c2, 'written table could not be read back: %r' % (e,)); return
    name = untok(case['name']); mn = [bytes.fromhex(m) for m in case['mnems']]
    rows = [[cell_untok(c) for c in r] for r in case['rows']]
    rows = [[(c if isinstance(c, tuple) else (c, None)) for c in r] for r in rows]
    k1 = first_kept([r[0][0] for r in rows]); rows1 = [rows[i] for i in k1]          # writer
    k2 = first_kept([exp_value(r[0][0]) for r in rows1]); rowsE = [rows1[i] for i in k2]   # reader, on decoded names
    try:
        bad = _table_diff(t, name, mn, rowsE)
        if not bad and wobj is not None and len(wobj):
            if [tok(k) for k in wobj.rowLabels()] != [tok(r[0][0]) for r in rows1]: bad = 'composed table: row labels/order differ'
            elif list(wobj.colLabels()) != mn: bad = 'composed table: column labels %r != %r' % (list(wobj.colLabels()), mn)
            else: bad = _label_diff(wobj, mn, 'composed table')
    except Exception as e:
        bad = 'decoded table cannot be inspected: %r' % (e,)
    if bad:
        ctx.fail(c2, bad); return
    if len(rowsE) >= 1 and len(mn) >= 2:
        ctx.nontriv(('table', case['name'], tuple(case['mnems']), tuple(tuple(r) for r in case['rows'])))


def label_probes(mn):
    """labels that are NOT column mnemonics of the table but would be under a folding of padding / case / blanks"""
    out = []
    for m in mn:
        c = m.rstrip(PADS)
        for v in (c + b' ' * (4 - len(c)), c + b'\x00' * (4 - len(c)), c + b'\t' * (4 - len(c)), m.lower(), m.upper(), m.swapcase(),
                  (b' ' + m.strip(PADS) + b'    ')[:4], (m.strip(PADS) + b'    ')[:4], c):
            if v not in mn and v not in out: out.append(v)
    return out


def _label_diff(t, mn, what):
    """access by column label (raw 4-byte keys) on every row, and by row name on the table"""
    probes = label_probes(mn)
    rows = list(t.genRows())
    for ri, row in enumerate(rows):
        cells = list(row.genCells())
        for ci, m in enumerate(mn[:len(cells)]):
            if m not in row: return '%s row %d: column %r not found by label' % (what, ri, m)
            if row[m] is not cells[ci]: return '%s row %d: row[%r] is the cell %r, expected cell %d (%r)' % (what, ri, m, row[m].mnem, ci, cells[ci].mnem)
        for v in probes:
            if v in row: return '%s row %d: label %r found (cell %r) but it is not a column mnemonic' % (what, ri, v, row[v].mnem)
        if isinstance(row.value, bytes):
            if row.value not in t or t[row.value] is not row: return '%s: table[%r] is not row %d' % (what, row.value, ri)
    names = [r.value for r in rows if isinstance(r.value, bytes)]
    for nm in names:
        if len(nm) != 4: continue
        c = nm.rstrip(PADS)
        for v in (c + b' ' * (4 - len(c)), c + b'\x00' * (4 - len(c)), nm.swapcase(), nm.lower()):
            if v not in names and v in t: return '%s: row name %r found but no row has that name' % (what, v)
    # the column order generator used by genLisBytes
    for ri, row in enumerate(rows):
        cells = list(row.genCells())
        got = [c for c in t.genRowValuesInColOrder(ri)]
        if len(cells) == len(mn) and (len(got) != len(cells) or any(g is not c for g, c in zip(got, cells))):
            return '%s row %d: cells in column order are %r, expected %r' % (what, ri, [g.mnem if g is not None else None for g in got], [c.mnem for c in cells])
    return None


def _table_diff(t, name, mn, rowsE):
    bad = None
    if t.value != name: bad = 'table name %r != %r' % (t.value, name)
    elif len(t) != len(rowsE): bad = 'row count %d != %d' % (len(t), len(rowsE))
    elif list(t.colLabels()) != (mn if rowsE else []): bad = 'column labels %r != %r' % (list(t.colLabels()), mn)
    elif [tok(k) for k in t.rowLabels()] != [tok(exp_value(r[0][0])) for r in rowsE]: bad = 'row labels/order differ'
    else:
        for ri, (row, exp) in enumerate(zip(t.genRows(), rowsE)):
            cells = list(row.genCells())
            if len(cells) != len(exp): bad = 'row %d has %d cells, expected %d' % (ri, len(cells), len(exp)); break
            for ci, (c, (v, u)) in enumerate(zip(cells, exp)):
                ev = exp_value(v)
                eu = u if u else b'    '
                erc = 65 if isinstance(v, bytes) else 68 if isinstance(v, float) else (66 if 0 <= v <= 255 else 79 if -32768 <= v <= 32767 else 73)
                if c.mnem != mn[ci]: bad = 'row %d cell %d mnemonic %r != %r' % (ri, ci, c.mnem, mn[ci])
                elif c.units != eu: bad = 'row %d cell %d units %r != %r' % (ri, ci, c.units, eu)
                elif c.type != (0 if ci == 0 else 69) or c.rc != erc: bad = 'row %d cell %d type/rc %d/%d' % (ri, ci, c.type, c.rc)
                elif tok(c.value) != tok(ev) or type(c.value) is not type(ev): bad = 'row %d cell %d value %r != %r (written %r)' % (ri, ci, c.value, ev, v)
                elif isinstance(v, float) and -127 <= math.frexp(v)[1] <= 127 and v != 0 and \
                        abs(fractions.Fraction(c.value) - fractions.Fraction(v)) > abs(fractions.Fraction(v)) / 2 ** 22:
                    bad = 'row %d cell %d float %r decoded %r: relative error above 2^-22' % (ri, ci, v, c.value)
                if bad: break
            if bad: break
            # retrieval by row label gives the same row
            if isinstance(row.value, bytes) and t[row.value] is not row: bad = 'table[%r] is not row %d' % (row.value, ri); break
    if not bad and rowsE:
        bad = _label_diff(t, mn, 'decoded table')
    return bad


def eb_legal(b):
    t, s, r, v = b.split('.', 3)
    t, s, r, v = int(t), int(s), int(r), untok(v)
    if t > 16 or t == 10: return True        # refused and ignored: no effect
    if v is None: return s == 0 and r < 256
    if r == 65: return isinstance(v, bytes) and s == len(v) and 1 <= s <= 255
    if r == 66: return type(v) is int and s == 1 and 0 <= v <= 255
    if r == 79: return type(v) is int and s == 2 and -32768 <= v <= 32767
    if r == 73: return type(v) is int and s == 4 and -2 ** 31 <= v < 2 ** 31
    if r == 68: return isinstance(v, float) and s == 4 and float_ok(v)
    return False


def chan_legal(c):
    n, si, so, u, api, fn, cl, sa, rc = c.split('.')
    api, fn, cl, sa, rc = int(api), int(fn), int(cl), int(sa), int(rc)
    if (len(n), len(si), len(so), len(u)) != (8, 12, 16, 8): return False
    if not (0 <= api < 2 ** 32 and -32768 <= fn <= 32767 and 1 <= cl <= 32767 and 0 <= sa <= 255): return False
    if rc in (130, 234): return True
    return rc in LIS_SIZE and sa >= 1 and cl % (LIS_SIZE[rc] * sa) == 0


def dfsr_in_domain(case):
    if not all(eb_legal(b) for b in case['blocks']) or not all(chan_legal(c) for c in case['chans']): return False
    v2 = [untok(b.split('.', 3)[3]) for b in case['blocks'] if b.split('.', 1)[0] == '2']
    return not v2 or (v2[-1] is not None and not isinstance(v2[-1], bytes) and v2[-1] == 0)


DEFAULTS = {1: (1, 66, 0), 2: (1, 66, 0), 3: (1, 66, 0), 4: (1, 66, 1), 5: (1, 66, 1), 6: (0, 66, None), 7: (4, 65, b'.1IN'),
            8: (0, 66, None), 9: (0, 65, None), 10: (0, 66, None), 11: (0, 66, None), 12: (4, 68, -999.25), 13: (1, 66, 0),
            14: (4, 65, b'.1IN'), 15: (1, 66, 0), 16: (1, 66, 0)}


def oracle_dfsr(ctx, mods, case, wline, ebs, lr, how):
    LogiRec = mods[0]
    ctx.count('oracle_cases')
    c2 = dict(case, how=list(how))
    if lr is None:
        ctx.fail(c2, 'format specification in the domain could not be written: ' + wline[:60]); return
    try:
        d = LogiRec.LrDFSRRead(file_of(mods, lr, how))
    except Exception as e:
        ctx.fail(c2, 'written format specification could not be read back: %r' % (e,)); return
    exp = dict(DEFAULTS)
    for b in case['blocks']:
        t, s, r, v = b.split('.', 3)
        if 0 < int(t) <= 16 and int(t) != 10:
            exp[int(t)] = (int(s), int(r), untok(v))
    try:
        bad = _dfsr_diff(case, ebs, d, exp)
    except Exception as e:
        bad = 'decoded format specification cannot be inspected: %r' % (e,)
    if bad:
        ctx.fail(c2, bad); return
    if case['blocks'] and case['chans']:
        ctx.nontriv(('dfsr', tuple(case['blocks']), tuple(case['chans'])))


def _dfsr_diff(case, ebs, d, exp):
    bad = None
    ebytes = bytes(ebs.lisBytes())
    if len(ebytes) % 2: bad = 'entry block set written with odd length %d' % len(ebytes)
    elif ebs.lisSize() % 2 or d.ebs.lisSize() % 2: bad = 'entry block set size not even'
    else:
        tot = sum(s for t, (s, r, v) in exp.items() if t != 10)
        et = (1, 66, 1) if tot % 2 else (0, 66, None)
        exp[0] = et
        for t in range(17):
            e = d.ebs[t]
            s, r, v = exp[t]
            ev = exp_value(v)
            if (e.type, e.size, e.repCode) != (t, s, r) or tok(e.value) != tok(ev):
                bad = 'entry block %d decoded as %r, expected size=%d rc=%d value=%r' % (t, tuple(e), s, r, ev); break
    if not bad:
        chans = [c.split('.') for c in case['chans']]
        if len(d.dsbBlocks) != len(chans): bad = '%d channels decoded, %d written' % (len(d.dsbBlocks), len(chans))
        if not bad and d.frameSize() != sum(int(c[6]) for c in chans): bad = 'frame size differs'
        for k, (x, c) in enumerate(zip(d.dsbBlocks, chans)):
            if bad: break
            n, si, so, u = (bytes.fromhex(h) for h in c[:4])
            api, fn, cl, sa, rc = (int(z) for z in c[4:])
            if rc == 130: eb, es, esa = 1, 5, [16] * 5
            elif rc == 234: eb, es, esa = 1, 15, [16] * 5 + [1] * 10
            else: eb, es, esa = cl // (LIS_SIZE[rc] * sa), 1, [sa]
            got = (x.mnem, x.servId, x.servOrd, x.units, x.apiLogType, x.apiCurveType, x.apiCurveClass, x.apiModifier,
                   x.fileNumber, x.size, x.repCode, x.subChannels, [x.bursts(i) for i in range(x.subChannels)],
                   [x.samples(i) for i in range(x.subChannels)])
            want = (n, si, so, u, api // 1000000, api // 1000 % 1000, api // 10 % 100, api % 10, fn, cl, rc, es, [eb] * es, esa)
            if got != want: bad = 'channel %d decoded as %r, expected %r' % (k, got, want)
    return bad


# ----------------------------------------------------------------------------------------------- generators

ALPH = b'ABCDEFGHIJKLMNOPQRSTUVWXYZ0123456789 -#.'
INT_EDGES = [0, 1, 2, 127, 128, 254, 255, 256, 257, -1, -2, -128, -129, 32767, 32768, 32766, -32768, -32769, -32767, 65535, 65536,
             2 ** 31 - 1, 2 ** 31 - 2, -2 ** 31, -2 ** 31 + 1, 70000, -70000, 1000, -1000]
FLOAT_EDGES = [0.0, -0.0, 0.5, -0.5, 1.0, -1.0, 153.0, -153.0, -999.25, 1.5, 0.1, -0.1, 1e-3, 3.14159, 1e10, -1e10, 1e-30, 2.0 ** 126,
               -2.0 ** 127, 2.0 ** -129, 2.0 ** -140, -2.0 ** -150, 1e-46, 1e38, 1.7e38, -1.7014118346046923e38, 1e39, -1e39, 1e300, 5e-324,
               8388607.0, 8388609.0, 16777217.0, -8388609.0, 0.75, 0.7500001, 1 - 2.0 ** -23, 1 - 2.0 ** -24, -(1 - 2.0 ** -24), 2.0 ** -128, 2.0 ** -127]


def rbytes(rng, n, alph=ALPH):
    return bytes(rng.choice(alph) for _ in range(n))


def gen_float(rng):
    r = rng.random()
    if r < 0.25: return rng.choice(FLOAT_EDGES)
    if r < 0.55:   # exactly representable: <= 23 significant bits
        return math.ldexp(rng.randint(-2 ** 22, 2 ** 22), rng.randint(-60, 60))
    if r < 0.9: return rng.uniform(-1, 1) * 10 ** rng.randint(-12, 12)
    return math.ldexp(rng.random() - 0.5, rng.randint(-160, 135))


def gen_int(rng, wide=False):
    r = rng.random()
    if r < 0.45: return rng.choice(INT_EDGES)
    if r < 0.6: return rng.randint(0, 255)
    if r < 0.8: return rng.randint(-32768, 32767)
    if wide and r > 0.97: return rng.choice([2 ** 31, -2 ** 31 - 1, 2 ** 40, -2 ** 63])
    return rng.randint(-2 ** 31, 2 ** 31 - 1)


def gen_value(rng, allow_empty=True, wide=False):
    r = rng.random()
    if r < 0.4:
        q = rng.random()
        n = 4 if q < 0.6 else rng.randint(0 if allow_empty else 1, 12) if q < 0.95 else rng.choice([200, 255, 255, 256 if wide else 254])
        return rbytes(rng, n) if rng.random() < 0.9 else bytes(rng.randrange(256) for _ in range(n))
    if r < 0.7: return gen_int(rng, wide)
    return gen_float(rng)


def gen_mnem(rng, n=4):
    if n == 4 and rng.random() < 0.08:
        c = rbytes(rng, rng.randint(0, 3), b'ABCDEFGH')       # short cores with mixed padding: collisions under folding are likely
        return c + bytes(rng.choice(b' \x00\t\n\r\x0b\x0c') for _ in range(4 - len(c)))
    return rbytes(rng, n, b'ABCDEFGHIJKLMNOPQRSTUVWXYZ0123456789 ') if rng.random() < 0.9 else bytes(rng.randrange(256) for _ in range(n))


PADS = b' \x00\t\n\r\x0b\x0c'


def near_dup_pair(rng):
    """two different 4-byte strings that a sloppy key normalisation would fold together: they differ only in trailing
    padding (space / NUL / tab / other whitespace, what Mnem.Mnem ignores), in case, in a leading blank, or in a non-ASCII
    byte (equal after .decode(errors='replace'))"""
    while True:
        q = rng.randrange(6)
        core = rbytes(rng, rng.randint(0, 3), b'ABCDEFGHIJKLMNOPQRSTUVWXYZ0123456789')
        if q <= 1:       # trailing padding
            a = core + bytes(rng.choice(PADS) for _ in range(4 - len(core)))
            b = core + bytes(rng.choice(PADS) for _ in range(4 - len(core)))
            if q == 1: a = core + b' ' * (4 - len(core)); b = core + b'\x00' * (4 - len(core))
        elif q == 2:     # case
            a = rbytes(rng, 4, b'ABCDEFGHIJKLMNOPQRSTUVWXYZ0123 '); k = rng.randrange(4)
            b = a[:k] + a[k:k + 1].swapcase() + a[k + 1:] if rng.random() < 0.5 else a.lower()
        elif q == 3:     # leading blank against trailing blank
            c3 = rbytes(rng, rng.randint(1, 3), b'ABCDEFGHIJKLMNOPQRSTUVWXYZ0123456789')
            a = (c3 + b'    ')[:4]; b = (rng.choice([b' ', b'\t', b'\x00']) + c3 + b'   ')[:4]
        elif q == 4:     # non-ASCII bytes
            a = bytearray(rbytes(rng, 4)); k = rng.randrange(4); a[k] = rng.randrange(128, 256); b = bytearray(a)
            b[k] = rng.randrange(128, 256); a, b = bytes(a), bytes(b)
        else:            # blank against NUL against other blanks, whole field
            a, b = rng.sample([b'    ', b'\x00\x00\x00\x00', b'\t\t\t\t', b'  \x00\x00', b'\x00   ', b' \x00 \x00', b'\n\r\x0b\x0c'], 2)
        if a != b and len(a) == 4 and len(b) == 4:
            return (a, b) if rng.random() < 0.5 else (b, a)


def gen_table(rng, kind):
    """kind: 'dom' (inside the property's domain, no recorded defect class), 'finding', 'wild' (anything the API accepts)"""
    ncol = rng.randint(1, 7)
    mn = []
    while len(mn) < ncol:
        m = gen_mnem(rng)
        if m not in mn and m != b'MNEM': mn.append(m)
    if rng.random() < 0.6: mn[0] = b'MNEM'
    elif ncol > 1 and rng.random() < 0.15: mn[rng.randrange(1, ncol)] = b'MNEM'
    if rng.random() < 0.3:      # near-duplicate column mnemonics: different 4-byte strings, equal under Mnem / strip / case / decode
        if ncol == 1: ncol = 2; mn.append(gen_mnem(rng))
        a, b = near_dup_pair(rng)
        i, j = rng.sample(range(ncol), 2)
        if rng.random() < 0.5 and mn[i] != b'MNEM':      # a variant of a mnemonic that is already there
            c = mn[i].rstrip(PADS); b = c + bytes(rng.choice(PADS) for _ in range(4 - len(c))); a = mn[i]
        mn2 = list(mn); mn2[i], mn2[j] = a, b
        if len(set(mn2)) == len(mn2): mn = mn2
    nrow = rng.choice([0, 1, 1, 2, 3, 4, 5, 8])
    names = []
    rows = []
    for _ in range(nrow):
        if names and rng.random() < 0.2: nm = rng.choice(names)
        elif names and isinstance(names[-1], bytes) and len(names[-1]) == 4 and rng.random() < 0.15:
            c = names[-1].rstrip(PADS)       # near-duplicate row name: a different row
            nm = c + bytes(rng.choice(PADS) for _ in range(4 - len(c))) if rng.random() < 0.6 else names[-1].swapcase()
        elif rng.random() < 0.05: nm = near_dup_pair(rng)[0]
        else:
            q = rng.random()
            nm = rbytes(rng, 4) if q < 0.75 else rbytes(rng, rng.randint(1, 9)) if q < 0.85 else gen_int(rng) if q < 0.93 else gen_float(rng)
        names.append(nm)
        row = [nm] + [gen_value(rng) for _ in range(ncol - 1)]
        row = [((v, rng.choice([rbytes(rng, 4), rbytes(rng, 4), b'FEET', b'    ', b''])) if rng.random() < 0.3 else v) for v in row]
        rows.append(row)
    name = rbytes(rng, 4) if rng.random() < 0.8 else near_dup_pair(rng)[0] if rng.random() < 0.3 else rbytes(rng, rng.randint(1, 40))
    lrType = rng.choice([34, 34, 32, 39])
    if kind == 'wild':
        q = rng.randrange(9)
        if q == 0 and ncol > 1: mn[rng.randrange(ncol)] = mn[rng.randrange(ncol)]                      # repeated column
        elif q == 1: mn[rng.randrange(ncol)] = rbytes(rng, rng.choice([0, 1, 2, 3, 5, 6, 9]))          # not 4 bytes
        elif q == 2 and rows: rows[rng.randrange(nrow)].append(b'XTRA')                                   # ragged row
        elif q == 3 and rows: rows[rng.randrange(nrow)][rng.randrange(ncol)] = rng.choice([2 ** 31, -2 ** 31 - 1, 2 ** 35])
        elif q == 4 and rows: rows[rng.randrange(nrow)][rng.randrange(ncol)] = rbytes(rng, rng.choice([256, 300]))
        elif q == 5 and rows: rows[rng.randrange(nrow)][rng.randrange(ncol)] = (gen_value(rng), rbytes(rng, rng.choice([1, 2, 3, 5, 7])))
        elif q == 6: lrType = rng.choice([0, 64, 128, 33])
        elif q == 7: name = rng.choice([b'', gen_int(rng), gen_float(rng), rbytes(rng, 256)])
        elif q == 8 and rows: rows[rng.randrange(nrow)] = rows[rng.randrange(nrow)][:rng.randrange(ncol)]
    case = {'op': 'table', 'lrType': lrType, 'name': tok(name), 'mnems': [hx(m) for m in mn],
            'rows': [[cell_tok(tuple(c) if isinstance(c, tuple) else c) for c in r] for r in rows]}
    return case


def table_line(case):
    return 'tablew %d %s %s %s' % (case['lrType'], case['name'], join_or(',', case['mnems']),
                                   join_or(';', [(','.join(r) if r else '~') for r in case['rows']]))


def py_cb(t, rc, size, cat, mnem, units, val):
    """independent component block encoder for hand-assembled streams"""
    b = bytes([t, rc, size, cat]) + mnem + units
    if val is None: return b
    if rc == 65: return b + val
    if rc in (66, 77): return b + bytes([val])
    if rc == 56: return b + struct.pack('>b', val)
    if rc == 79: return b + struct.pack('>h', val)
    if rc == 73: return b + struct.pack('>i', val)
    if rc == 68: return b + struct.pack('>I', val)       # val is the raw word here
    return b + val


def gen_stream(rng):
    """a hand-assembled (possibly ill-formed) table logical record + what is known about it"""
    blocks = []   # (type, rowname or None)
    out = bytearray([rng.choice([34, 34, 34, 32, 39, 34, 0 if rng.random() < 0.3 else 34]), rng.randrange(256) if rng.random() < 0.2 else 0])
    has73 = rng.random() < 0.85
    if has73: out += py_cb(73, 65, 4, 0, b'TYPE', b'    ', rbytes(rng, 4))
    nrow = rng.randint(0, 6)
    names = []
    wellformed = has73
    for _ in range(nrow):
        nm = rng.choice(names) if names and rng.random() < 0.35 else near_dup_pair(rng)[0] if rng.random() < 0.1 else rbytes(rng, rng.choice([4, 4, 4, 2, 0]))
        names.append(nm)
        out += py_cb(0, 65, len(nm), rng.choice([0, 0, 7]), rng.choice([b'MNEM', b'MNEM', b'NAME']), b'    ', nm)
        for _ in range(rng.randint(0, 4) if has73 else (0 if rng.random() < 0.8 else 1)):
            rc = rng.choice([65, 66, 68, 73, 79, 56, 77])
            if rc == 65:
                v = rbytes(rng, rng.choice([0, 1, 4, 4, 8]))
                out += py_cb(69, 65, len(v), 0, gen_mnem(rng), rbytes(rng, 4), v)
            else:
                v = {66: rng.randrange(256), 77: rng.randrange(256), 56: rng.randint(-128, 127), 79: rng.randint(-32768, 32767),
                     73: rng.randint(-2 ** 31, 2 ** 31 - 1), 68: rng.getrandbits(32)}[rc]
                out += py_cb(69, rc, rng.choice([LIS_SIZE[rc], LIS_SIZE[rc], 0, 9]), 0, gen_mnem(rng), rbytes(rng, 4), v)
    q = rng.random()
    if q < 0.15 and len(out) > 3: out = out[:rng.randrange(2, len(out))]                       # truncated
    elif q < 0.25: out += bytes(rng.randrange(256) for _ in range(rng.randint(1, 11)))           # spurious tail
    elif q < 0.32: out += py_cb(rng.choice([1, 73, 68, 255]), 65, 2, 0, b'BAD ', b'    ', b'xx')   # unknown block type
    elif q < 0.38: out += py_cb(69, rng.choice([0, 1, 64, 67, 80, 105, 255]), 4, 0, b'UNKN', b'    ', b'abcd')   # unknown rep code
    elif q < 0.42: out = out[:2]
    return bytes(out)


EB_RC_VALUES = {
    66: lambda rng: (1, rng.choice([0, 1, 255, rng.randrange(256)])),
    79: lambda rng: (2, rng.choice([-32768, 32767, 256, -1, rng.randint(-32768, 32767)])),
    73: lambda rng: (4, rng.choice([-2 ** 31, 2 ** 31 - 1, 65536, rng.randint(-2 ** 31, 2 ** 31 - 1)])),
    68: lambda rng: (4, gen_float(rng)),
    65: lambda rng: (lambda b: (len(b), b))(rbytes(rng, rng.choice([4, 4, 1, 2, 3, 5, 8, 255]))),
}


def gen_eb(rng, t, legal=True):
    if rng.random() < 0.15:
        return '%d.0.%d.N' % (t, rng.choice([65, 66, 68, 73, 79, 0, 255]))
    rc = rng.choice([66, 66, 79, 73, 68, 65])
    s, v = EB_RC_VALUES[rc](rng)
    if t == 2 and legal: rc, s, v = rng.choice([(66, 1, 0), (66, 1, 0), (79, 2, 0), (73, 4, 0), (68, 4, 0.0)])
    return '%d.%d.%d.%s' % (t, s, rc, tok(v))


def gen_chan(rng):
    rc = rng.choice([68, 68, 68, 73, 79, 66, 56, 49, 50, 70, 77, 130, 234])
    if rc in (130, 234):
        sa, cl = rng.choice([1, 1, 0, 16]), rng.choice([LIS_SIZE[rc], LIS_SIZE[rc], 4, 1])
    else:
        sa = rng.choice([1, 1, 1, 2, 4, 8, 16, rng.randint(1, 60)])
        bu = rng.choice([1, 1, 1, 2, 6, rng.randint(1, 40)])
        cl = LIS_SIZE[rc] * sa * bu
        if cl > 32767: sa, cl = 1, LIS_SIZE[rc]
    api = rng.choice([45310011, 0, 99999999, 4294967295, rng.randrange(10 ** 8), rng.getrandbits(32)])
    fn = rng.choice([256, 0, 1, -1, 32767, -32768, rng.randint(-32768, 32767)])
    return '.'.join([hx(gen_mnem(rng)), hx(rbytes(rng, 6)), hx(rbytes(rng, 8)), hx(rbytes(rng, 4)), str(api), str(fn), str(cl), str(sa), str(rc)])


def gen_dfsr(rng, kind):
    types = [t for t in range(1, 17) if t != 10]
    k = rng.choice([0, 1, 2, 3, 5, 8, 15])
    ts = rng.sample(types, k)
    if rng.random() < 0.2: ts += [rng.choice(ts)] if ts else []          # set twice: last wins
    if rng.random() < 0.15: ts.insert(rng.randrange(len(ts) + 1), rng.choice([0, 10, 17, 200]))
    blocks = [gen_eb(rng, t) for t in ts]
    chans = [gen_chan(rng) for _ in range(rng.choice([0, 1, 1, 2, 3, 6]))]
    if kind == 'wild':
        q = rng.randrange(8)
        if q == 0: blocks.append('2.1.66.i%d' % rng.choice([1, 2, 255]))                       # DSB type not 0
        elif q == 1: blocks.append('%d.%d.66.i5' % (rng.choice(types), rng.choice([2, 3, 4])))   # size does not match code
        elif q == 2: blocks.append('%d.0.66.i5' % rng.choice(types))                            # integrity: size 0 with a value
        elif q == 3: blocks.append('%d.1.%d.i5' % (rng.choice(types), rng.choice([1, 64, 67, 255])))   # unknown code
        elif q == 4 and chans:
            c = chans[-1].split('.'); c[6] = str(int(c[6]) + 1); chans[-1] = '.'.join(c)        # fractional bursts
        elif q == 5 and chans:
            c = chans[rng.randrange(len(chans))].split('.'); c[6] = rng.choice(['0', '-4']); chans[0] = '.'.join(c)   # null / negative size
        elif q == 6 and chans:
            c = chans[0].split('.'); c[7] = '0'; chans[0] = '.'.join(c)                         # zero samples
        elif q == 7 and chans:
            c = chans[0].split('.'); c[8] = rng.choice(['65', '0', '1', '255']); chans[0] = '.'.join(c)   # text / unknown code
    return {'op': 'dfsr', 'blocks': blocks, 'chans': chans}


def dfsr_line(case):
    return 'dfsrw %s %s' % (join_or(',', case['blocks']), join_or(',', case['chans']))


def gen_how(rng, n):
    r = rng.random()
    if r < 0.3: return ('single',)
    if r < 0.65: return ('tests', rng.choice([rng.randint(1, 24), rng.randint(8, 64), max(n - 1, 1), n + 1, 1024]))
    return ('writer', rng.choice([rng.randint(5, 24), rng.randint(8, 80), 1024, 65535]))


# ----------------------------------------------------------------------------------------------- run

def run(ctx):
    mods = _mods()
    logging.disable(logging.CRITICAL)
    try:
        _run(ctx, mods)
    finally:
        logging.disable(logging.NOTSET)


def _run(ctx, mods):
    rng = ctx.rng
    LogiRec, RepCode, File, PhysRec, LisGen, Mnem = mods
    # ------------------------------------------------ code 68 and Mnem primitives
    fl = list(FLOAT_EDGES) + [gen_float(rng) for _ in range(ctx.n(4000, 60000))]
    rep = ctx.lean(['rt68 %d %d' % fcanon(v) for v in fl])
    for v, m in zip(fl, rep):
        w = RepCode.to68(v); d = RepCode.from68(w)
        ctx.corr('rt68', {'op': 'rt68', 'v': v.hex()}, 'ok %d %d %d' % ((w,) + fcanon(d)), m)
        ctx.count('oracle_cases')
        r = ref68(v)
        if r is None:
            continue
        if d != r:
            ctx.fail({'op': 'rt68', 'v': v.hex()}, 'from68(to68(%r)) = %r, reference %r' % (v, d, r))
        elif v != 0 and -127 <= math.frexp(v)[1] <= 127 and abs(fractions.Fraction(d) - fractions.Fraction(v)) > abs(fractions.Fraction(v)) / 2 ** 22:
            ctx.fail({'op': 'rt68', 'v': v.hex()}, 'relative error of code 68 above 2^-22 for %r' % v)
    mm = [bytes(rng.choice([0, 9, 10, 11, 12, 13, 32, 65, 66, 255]) for _ in range(rng.randint(0, 6))) for _ in range(ctx.n(1500, 10000))]
    rep = ctx.lean(['mnem ' + hx(b) for b in mm])
    for b, m in zip(mm, rep):
        ctx.corr('mnem', {'op': 'mnem', 'b': hx(b)}, 'ok ' + hx(Mnem.Mnem(b).m), m)
    # ------------------------------------------------ tables written by the implementation
    cases = []
    for i in range(ctx.n(12000, 120000)):
        kind = 'wild' if i % 5 == 4 else 'dom'
        cases.append(gen_table(rng, kind))
    # small exhaustive family: every (kind of first cell) x (kind of last cell) x rows 0..2 x dupe pattern
    firsts = [b'A   ', b'A', 7, 300, -7, 70000, 1.5, 0.1]
    lasts = [b'LAST', b'', b'x' * 255, 0, 255, 256, -1, -32768, 32767, 32768, -32769, 2 ** 31 - 1, -2 ** 31, 0.0, 0.1, -999.25, 1e39]
    for f in firsts:
        for l in lasts:
            for mn0 in (b'MNEM', b'NAME'):
                for u in (None, b'UNIT'):
                    cell = (l, u) if u else l
                    cases.append({'op': 'table', 'lrType': 34, 'name': tok(b'TABL'), 'mnems': [hx(mn0), hx(b'COL1')],
                                  'rows': [[cell_tok(f), cell_tok(cell)], [cell_tok(b'B   '), cell_tok(b'zz')], [cell_tok(f), cell_tok(b'dupe')]][:1 + (len(cases) % 3)]})
    # near-duplicate column mnemonics / row names, a fixed family on every run
    FIXED_PAIRS = [(b'DL  ', b'DL\x00\x00'), (b'    ', b'\x00\x00\x00\x00'), (b'DL  ', b'DL\t '), (b'GR  ', b'gr  '), (b'GR  ', b' GR '),
                   (b'A\xffBC', b'A\xfeBC'), (b'ABC ', b'ABC\x00'), (b'ABCD', b'ABCd'), (b'\x00\x00\x00\x00', b'\t\t\t\t'), (b'X   ', b'X\n\r\x0b'),
                   (b'MNEM', b'mnem'), (b'MNE ', b'MNE\x00')]
    for a, b in FIXED_PAIRS:
        for cols in ([b'MNEM', a, b], [a, b], [b, b'MID ', a], [b'MNEM', a, b'COL1', b, b'COL2']):
            if len(set(cols)) != len(cols): continue
            for names in ([b'R1  '], [b'R1  ', b'R1\x00\x00', b'r1  ', b'R1  '], [a, b]):
                cases.append({'op': 'table', 'lrType': 34, 'name': tok(a), 'mnems': [hx(m) for m in cols],
                              'rows': [[tok(nm)] + [cell_tok((bytes([65 + k]) * 3, b'U%d  ' % k) if k % 2 else 100 * ri + k) for k in range(1, len(cols))]
                                       for ri, nm in enumerate(names)]})
    wrep = ctx.lean([table_line(c) for c in cases])
    reads = []
    for c, m in zip(cases, wrep):
        line, wobj, lr = impl_tablew(mods, c)
        ctx.corr('table_write', c, line, m)
        if lr is not None:
            how = gen_how(rng, len(lr))
            reads.append((c, lr, how))
        if table_in_domain(c):
            oracle_table(ctx, mods, c, line, wobj, lr, gen_how(rng, len(lr)) if lr is not None else ('single',))
    ctx.sample({'op': 'table', 'request': table_line(cases[1])[:300], 'model_reply': wrep[1][:300]})
    rrep = ctx.lean(['table ' + hx(lr) for _, lr, _ in reads])
    for (c, lr, how), m in zip(reads, rrep):
        line, _ = impl_table(mods, lr, how)
        ctx.corr('table_read', dict(c, how=list(how)), line, m)
    # ------------------------------------------------ TableRow access by label: raw 4-byte keys (model: getByLabel)
    lab = []
    for _ in range(ctx.n(3000, 30000)):
        k = rng.randint(1, 6)
        ms = [gen_mnem(rng) for _ in range(k)]
        if k > 1 and rng.random() < 0.6:
            a, b = near_dup_pair(rng); i, j = rng.sample(range(k), 2); ms[i], ms[j] = a, b
        if k > 1 and rng.random() < 0.15: ms[rng.randrange(k)] = ms[rng.randrange(k)]        # a real duplicate: first wins
        probes = ms + label_probes(ms)[:6] + [gen_mnem(rng)]
        lab.append((ms, rng.choice(probes)))
    lrep = ctx.lean(['label %s %s' % (','.join(hx(m) for m in ms), hx(q)) for ms, q in lab])
    for (ms, q), m in zip(lab, lrep):
        row = LogiRec.TableRow(LogiRec.CbEngValWrite(0, b'NAME', ms[0]))
        for x in ms[1:]: row.addCb(LogiRec.CbEngValWrite(69, 1, x))
        try: out = 'ok %d' % row._getByLable(q)
        except KeyError: out = 'ok N'
        except Exception as e: out = 'err ' + fam(e)
        ctx.corr('row_label', {'op': 'label', 'mnems': [hx(x) for x in ms], 'label': hx(q)}, out, m)
        ctx.count('oracle_cases')
        want = ms.index(q) if q in ms else None
        if out != ('ok N' if want is None else 'ok %d' % want) or (q in row) != (want is not None):
            ctx.fail({'op': 'label', 'mnems': [hx(x) for x in ms], 'label': hx(q)},
                     'row with cell mnemonics %r: label %r gives %s, expected index %r' % (ms, q, out, want))
    # ------------------------------------------------ hand-assembled / ill-formed block streams (reader only)
    streams = [gen_stream(rng) for _ in range(ctx.n(8000, 80000))]
    srep = ctx.lean(['table ' + hx(s) for s in streams])
    for s, m in zip(streams, srep):
        how = gen_how(rng, len(s))
        line, t = impl_table(mods, s, how)
        ctx.corr('table_stream', {'op': 'stream', 'lr': hx(s), 'how': list(how)}, line, m)
    oracle_dupes(ctx, mods)
    # ------------------------------------------------ format specifications
    dcases = [gen_dfsr(rng, 'wild' if i % 5 == 4 else 'dom') for i in range(ctx.n(10000, 80000))]
    if ctx.tier == 'thorough':
        types = [t for t in range(1, 17) if t != 10]
        canon = {t: gen_eb(rng, t) for t in types}
        chan = gen_chan(rng)
        for mask in range(1 << 16):
            ts = [0] * (mask & 1) + [t for k, t in enumerate(types) if mask >> (k + 1) & 1]
            dcases.append({'op': 'dfsr', 'blocks': [canon[t] if t else '0.1.66.i1' for t in ts], 'chans': [chan]})
        ctx.extra['exhaustive'] = True
        ctx.extra['exhaustive_scope'] = 'all 2^16 subsets of the 16 entry block types {0..16}\\{10} (one legal value each) written and read back'
    else:
        # all single and pairs of types
        types = [t for t in range(0, 17)]
        for a in types:
            for b in types:
                dcases.append({'op': 'dfsr', 'blocks': [gen_eb(rng, a) if a else '0.1.66.i1', gen_eb(rng, b) if b else '0.0.66.N'][:1 + (a != b)], 'chans': [gen_chan(rng)]})
    wrep = ctx.lean([dfsr_line(c) for c in dcases])
    reads = []
    for c, m in zip(dcases, wrep):
        line, ebs, lr = impl_dfsrw(mods, c)
        ctx.corr('dfsr_write', c, line, m)
        if lr is not None:
            reads.append((c, lr, gen_how(rng, len(lr))))
        if dfsr_in_domain(c):
            oracle_dfsr(ctx, mods, c, line, ebs, lr, gen_how(rng, len(lr)) if lr is not None else ('single',))
    ctx.sample({'op': 'dfsr', 'request': dfsr_line(dcases[0])[:300], 'model_reply': wrep[0][:300]})
    # corrupt a share of the records: truncation, spurious bytes
    extra = []
    for c, lr, how in reads[:ctx.n(3000, 30000)]:
        q = rng.random()
        if q < 0.5: b2 = lr[:rng.randrange(0, len(lr))]
        elif q < 0.8: b2 = lr + bytes(rng.randrange(256) for _ in range(rng.randint(1, 45)))
        else:
            k = rng.randrange(len(lr)); b2 = lr[:k] + bytes([rng.randrange(256)]) + lr[k + 1:]
        extra.append(({'op': 'dfsr_raw', 'lr': hx(b2)}, b2, gen_how(rng, len(b2))))
    allr = reads + extra
    rrep = ctx.lean(['dfsr ' + hx(lr) for _, lr, _ in allr])
    skipped = 0
    for (c, lr, how), m in zip(allr, rrep):
        if m == 'err NotModelled':
            skipped += 1; continue
        line, _ = impl_dfsr(mods, lr, how)
        ctx.corr('dfsr_read', dict(c, how=list(how)), line, m)
    ctx.count('dfsr_raw_skipped_codes_49_50_70', skipped)
    ctx.count('table_cases', len(cases)); ctx.count('stream_cases', len(streams)); ctx.count('dfsr_cases', len(dcases))


def oracle_dupes(ctx, mods):
    """duplicate row names are dropped with the first kept — on hand-assembled records, implementation alone"""
    rng = ctx.rng
    LogiRec = mods[0]
    for _ in range(ctx.n(1500, 15000)):
        n = rng.randint(1, 8)
        pool = [rbytes(rng, 4) for _ in range(rng.randint(1, 4))]
        if rng.random() < 0.4: pool += list(near_dup_pair(rng))          # near-duplicates are different rows
        names = [rng.choice(pool) for _ in range(n)]
        lr = bytearray([34, 0]) + py_cb(73, 65, 4, 0, b'TYPE', b'    ', b'DUPE')
        for i, nm in enumerate(names):
            lr += py_cb(0, 65, 4, 0, b'MNEM', b'    ', nm) + py_cb(69, 79, 2, 0, b'SEQ ', b'    ', i)
        case = {'op': 'dupes', 'names': [hx(x) for x in names]}
        check_dupes(ctx, mods, case, bytes(lr), names)


def check_dupes(ctx, mods, case, lr, names):
    LogiRec = mods[0]
    ctx.count('oracle_cases')
    try:
        t = LogiRec.LrTableRead(file_of(mods, lr, ('single',)))
    except Exception as e:
        ctx.fail(case, 'record with duplicate rows could not be read: %r' % (e,)); return
    keep = first_kept(names)
    try:
        got = [(r.value, r[b'SEQ '].value) for r in t.genRows()]
    except Exception as e:
        ctx.fail(case, 'rows read back cannot be inspected: %r' % (e,)); return
    want = [(names[i], i) for i in keep]
    if got != want:
        ctx.fail(case, 'rows kept %r, expected first occurrences %r' % (got, want)); return
    if len(keep) < len(names):
        ctx.nontriv(('dupes', tuple(names)))


def replay(ctx, rec):
    mods = _mods()
    logging.disable(logging.CRITICAL)
    try:
        case = rec['case']
        n0 = len(ctx.failures)
        op = case.get('op')
        if op == 'table':
            line, wobj, lr = impl_tablew(mods, case)
            oracle_table(ctx, mods, case, line, wobj, lr, tuple(case.get('how', ['single'])))
        elif op == 'dfsr':
            line, ebs, lr = impl_dfsrw(mods, case)
            oracle_dfsr(ctx, mods, case, line, ebs, lr, tuple(case.get('how', ['single'])))
        elif op == 'dupes':
            names = [bytes.fromhex(x) for x in case['names']]
            lr = bytearray([34, 0]) + py_cb(73, 65, 4, 0, b'TYPE', b'    ', b'DUPE')
            for i, nm in enumerate(names):
                lr += py_cb(0, 65, 4, 0, b'MNEM', b'    ', nm) + py_cb(69, 79, 2, 0, b'SEQ ', b'    ', i)
            check_dupes(ctx, mods, case, bytes(lr), names)
        elif op == 'label':
            LogiRec = mods[0]
            ms = [b'' if x == '-' else bytes.fromhex(x) for x in case['mnems']]; q = b'' if case['label'] == '-' else bytes.fromhex(case['label'])
            row = LogiRec.TableRow(LogiRec.CbEngValWrite(0, b'NAME', ms[0]))
            for x in ms[1:]: row.addCb(LogiRec.CbEngValWrite(69, 1, x))
            try: got = row._getByLable(q)
            except KeyError: got = None
            want = ms.index(q) if q in ms else None
            return got == want, 'row with cell mnemonics %r: label %r -> %r, expected %r' % (ms, q, got, want)
        elif op == 'rt68':
            RepCode = mods[1]
            v = float.fromhex(case['v']); d = RepCode.from68(RepCode.to68(v))
            ok = ref68(v) is None or d == ref68(v)
            return ok, 'from68(to68(%r)) = %r, reference %r' % (v, d, ref68(v))
        else:
            return True, 'nothing to replay (no concrete failing input was recorded)'
        if len(ctx.failures) > n0:
            return False, ctx.failures[-1]['detail']
        return True, 'decoded content equals the generated content'
    finally:
        logging.disable(logging.NOTSET)
