"""C19 — plotted curves stay inside their track and wrap consistently.

(a) scale mathematics: Lean theorems about a model of PRESCfg.LineTransLin/LineTransLog10 (wrapPos, L2P, offScale) and
    Plot._retInterpolateWrapPoints/_filterCrossLineList, tied to the code by an error-bounded correspondence, plus a
    property oracle evaluated on the implementation alone against fractions.Fraction arithmetic.
(b) SVG producer: exercised only (see props/c19_svg.py): generated LIS/LAS log passes plotted with every built-in
    LgFormat and with generated FILM/PRES tables, the SVG parsed with lxml and every curve point checked.
"""
import math
from fractions import Fraction as Fr

CLAIM = {
 'text': ('PARTIAL. Proved in Lean 4 for all rational scale edges, positions and values (wrap_in_track, wrap_identity, '
          'wrap_unique; wrap_log/wrap_log_l2p/wrap_log_nonpositive for ANY function in place of log10; offScale_*; '
          'interp_points_on_edges, interp_cross_count_M4, filter_keeps_first (every MAX >= 1, every list), '
          'plots_mem_iff / plots_order_independent (exactly the films with data are plotted, in any table order), '
          'hasDataToPlotLAS_iff (a LAS file plots with a format iff a curve is a channel name or a listed alternate), '
          'ret_interpolate_points_M4): every '
          'value is mapped to a wrap count and a position with leftP <= pos < rightP and pos + wrap*width = L2P(value), '
          'that pair is unique, a non-positive value on a log scale is refused, and every interpolated wrap point lies '
          'strictly between the two frames on a track edge. The model is tied to PRESCfg.py/Plot.py on every run by an '
          'error-bounded correspondence (floats vs exact rationals). The SVG producer (Plot.plotLogPassLIS/LAS) is NOT '
          'proved: it is exercised on generated log passes (constant, spiky, huge, tiny, negative-on-log, absent) with '
          'every built-in LgFormat and generated FILM/PRES tables; the SVG is parsed and every curve point checked.'),
 'note': ('Floats are modelled by exact rationals; the comparison accepts a wrap count off by one only when the exact '
          'fractional part is within 2^-40 (or the float error bound) of an integer and counts those cases. math.log10 '
          'is abstract in the model: the driver is handed the float values of log10 the code computed. '
          'filter_keeps_first is proved for every MAX_BACKUP_TRACK_CROSSING_LINES >= 1 and every even-length list. '
          'SVG level is oracle-only. The float-only guard `not math.isfinite(p)` of wrapPos '
          'cannot fire in the exact model: those inputs are counted (fp_overflow_not_in_model), not compared; the oracle '
          'there demands ExceptionLineTransBaseMath.'),
 'technique': 'Lean 4 proof (ordered field with floor, induction on the wrap loop) + error-bounded model-implementation '
              'correspondence + generated-input SVG oracle',
 'design_ref': 'DESIGN.md section 6 C19',
}

RULE = ('wrap: scale edges/positions/values drawn from classes (typical log scales, reversed, tiny span, magnitudes '
        '1e-30..1e30, exact multiples of the span = floor boundaries and their float neighbours, huge 1e300, tiny '
        '5e-324, zero, negative on log) x all back-up modes; non-trivial when the wrap count is non-zero or the value is '
        'refused; distinct by (kind, scale class, value class, clipped wrap count). interp/filter: random and '
        'exhaustive small wrap jumps / pair counts. svg: one case = (input kind LIS|LAS, format or generated FILM/PRES, '
        'data class, direction); non-trivial when at least one curve polyline with >= 2 points was produced. plotlogs: '
        'TotalDepth.PlotLogs.PlotLogPasses on generated LIS files (FILM tables of 1..4 films, every subset of films without '
        'data, 1-2 log passes) and LAS files with a list of LgFormats; distinct by (films, which have no data).')
ASSUMPTIONS = ['values and scale edges are finite IEEE doubles; for the in-track/identity oracle their magnitudes are such '
               'that (v-lL)/(rL-lL) and v/lL do not overflow or underflow (the overflow class is reported separately)',
               'SVG coordinates are printed with one decimal (points) / three decimals (viewBox): checks allow 0.06 units',
               'LgFormat XML files under util/plot/formats are the built-in formats; blank formats without curves are skipped']
TRUSTED = ['modelled, not verified: IEEE-754 double rounding of PRESCfg arithmetic (the model is exact; accepted deviation: '
           '8 ulp on the normalised position, wrap count +-1 only within 2^-40 of an integer)',
           'modelled, not verified: math.log10 (abstract function in the theorems; the driver receives the float results of '
           'math.log10(v/lL), math.log10(rL/lL), math.log10(lL), math.log10(v) computed in Python)',
           'not modelled: Plot._plotSingleOutput buffering, PlotRoll/Coord/SVGWriter/XmlWrite (exercised by the SVG oracle only)',
           'lxml as the SVG well-formedness judge']

ANCHOR_FILES = ['src/TotalDepth/util/plot/PRESCfg.py', 'src/TotalDepth/util/plot/Plot.py', 'src/TotalDepth/PlotLogs.py']

BACKUPS = {'NONE': (1, -1), 'ALL': (0, 0), 'ONCE': (-1, 1), 'TWICE': (-2, 2), 'LEFT': (0, -1), 'RIGHT': (1, 0)}
TWO = Fr(2)
E40 = Fr(1, 2 ** 40)


def _mods():
    from TotalDepth.util.plot import PRESCfg, Plot, Coord
    return PRESCfg, Plot, Coord


def rs(x):
    """float -> 'n/d' exact"""
    n, d = x.as_integer_ratio()
    return f'{n}/{d}' if d != 1 else str(n)


def pr(s):
    n, _, d = s.partition('/')
    return Fr(int(n), int(d or 1))


# ------------------------------------------------------------------------------------------------ generators

def gen_phys(rng):
    c = rng.random()
    if c < 0.5:
        return rng.choice([(0.0, 2.4), (3.2, 5.6), (5.6, 8.0), (3.2, 8.0), (0.0, 1.2), (1.2, 2.4), (0.0, 8.0)])
    if c < 0.9:
        a = round(rng.uniform(0, 7.5), rng.randint(0, 3))
        return a, a + rng.choice([0.001, 0.1, 1.0, 2.4, rng.uniform(0.01, 5)])
    if c < 0.95:
        return rng.choice([(-1.0, 1.0), (0.0, 1e-9), (1e6, 1e6 + 1), (0.1, 0.3), (-5.5, -2.25)])
    return rng.choice([(1.0, 1.0), (2.0, 1.0), (0.0, 0.0)])     # constructor must refuse


def gen_lin_scale(rng):
    c = rng.random()
    if c < 0.35:
        return rng.choice([(0.0, 100.0), (-80.0, 20.0), (20.0, -80.0), (0.45, -0.15), (1.95, 2.95), (6.0, 16.0),
                           (0.0, 150.0), (140.0, 40.0), (0.0, 1.0), (-1.0, 1.0), (0.0, 0.1), (0.2, 2000.0)]), 'typ'
    if c < 0.6:
        a = rng.uniform(-1, 1) * 10 ** rng.randint(-30, 30)
        b = rng.uniform(-1, 1) * 10 ** rng.randint(-30, 30)
        return (a, b), 'mag'
    if c < 0.75:
        a = rng.uniform(-1, 1) * 10 ** rng.randint(-5, 12)
        return (a, math.nextafter(a, math.inf) if rng.random() < 0.3 else a + abs(a) * 10 ** -rng.randint(3, 14) + 5e-324), 'narrow'
    if c < 0.9:
        a = float(rng.randint(-1000, 1000)); s = float(rng.choice([1, 2, 3, 5, 7, 10, 100, 0.5, 0.25, 0.1, 0.3]))
        return ((a, a + s) if rng.random() < 0.5 else (a + s, a)), 'grid'
    if c < 0.97:
        return (rng.choice([1e150, -1e150, 1e-150, 3e120]), rng.choice([-1e150, 2e149, 0.0, -1e-150])), 'ext'
    a = rng.choice([0.0, 1.0, -3.5, 1e10])
    return (a, a), 'degenerate'                                   # ZeroDivisionError in the constructor


def gen_value(rng, lL, rL):
    span = rL - lL
    c = rng.random()
    if c < 0.3:
        return lL + span * rng.random(), 'in'
    if c < 0.5:
        k = rng.randint(-6, 6)
        v = lL + k * span
        j = rng.random()
        if j < 0.3: v = math.nextafter(v, math.inf)
        elif j < 0.6: v = math.nextafter(v, -math.inf)
        return v, 'edge'
    if c < 0.7:
        return lL + span * rng.uniform(-20, 20), 'wrap'
    if c < 0.8:
        return rng.choice([1e30, -1e30, 1e100, -1e100, 1e150, -1e150, 2.5e8, 1.5163e6, 13716948.0]), 'huge'
    if c < 0.9:
        return rng.choice([0.0, -0.0, 5e-324, -5e-324, 1e-300, -1e-300, 1e-30, 2.2250738585072014e-308]), 'tiny'
    if c < 0.97:
        return rng.uniform(-1, 1) * 10 ** rng.randint(-40, 40), 'mag'
    return -999.25, 'absentlike'


def gen_log_scale(rng):
    c = rng.random()
    if c < 0.45:
        return rng.choice([(0.2, 2000.0), (2000.0, 0.2), (1.0, 10.0), (0.1, 1000.0), (2.0, 20000.0), (1.0, 1000.0),
                           (0.2, 20.0), (20.0, 0.2), (1.0, 2.0), (1e-3, 1e3)]), 'typ'
    if c < 0.75:
        return (10.0 ** rng.randint(-20, 20) * rng.uniform(1, 10), 10.0 ** rng.randint(-20, 20) * rng.uniform(1, 10)), 'mag'
    if c < 0.85:
        a = rng.uniform(0.5, 50)
        return (a, a * (1 + 10 ** -rng.randint(2, 12))), 'narrow'
    if c < 0.93:
        return rng.choice([(1e-150, 1e150), (1e100, 1e-100), (5e-300, 1.0)]), 'ext'
    return rng.choice([(0.0, 10.0), (-1.0, 10.0), (1.0, -10.0), (1.0, 0.0), (3.0, 3.0), (-2.0, -20.0)]), 'invalid'


def gen_log_value(rng, lL, rL):
    c = rng.random()
    if c < 0.15:
        return rng.choice([0.0, -0.0, -1.0, -1e-300, -1e300, -999.25, -5e-324]), 'nonpos'
    if lL > 0 and rL > 0:
        if c < 0.45:
            return lL * (rL / lL) ** rng.random(), 'in'
        if c < 0.65:
            k = rng.randint(-5, 5)
            try:
                v = lL * (rL / lL) ** k
            except (OverflowError, ZeroDivisionError):
                v = lL
            j = rng.random()
            if j < 0.3: v = math.nextafter(v, math.inf)
            elif j < 0.6: v = math.nextafter(v, 0.0)
            return (v if 0 < v < 1e300 else lL), 'edge'
        if c < 0.8:
            try:
                v = lL * (rL / lL) ** rng.uniform(-8, 8)
            except OverflowError:
                v = rL
            return (v if 0 < v < 1e300 else rL), 'wrap'
    if c < 0.9:
        return rng.choice([1e30, 1e100, 1e200, 2.5e8, 1e-30, 1e-100, 1e-200]), 'hugetiny'
    return 10 ** rng.uniform(-40, 40), 'mag'


# ------------------------------------------------------------------------------------------------ implementation

def impl_wrap(PRESCfg, kind, lP, rP, lL, rL, bu, v):
    """returns ('ok', w, pos, l2p) or ('err', name)"""
    cls = PRESCfg.LineTransLin if kind == 'lin' else PRESCfg.LineTransLog10
    try:
        t = cls(lP, rP, lL, rL, bu)
    except PRESCfg.ExceptionLineTransBase:
        return ('err', 'ctor')
    except ZeroDivisionError:
        return ('err', 'ZeroDivisionError')
    except ValueError:
        return ('err', 'ValueError')
    except OverflowError:
        return ('err', 'OverflowError')
    try:
        w, pos = t.wrapPos(v)
    except PRESCfg.ExceptionLineTransBaseMath:
        return ('err', 'LineTransBaseMath')
    except OverflowError:
        return ('err', 'OverflowError')
    except ValueError:
        return ('err', 'ValueError')
    except ZeroDivisionError:
        return ('err', 'ZeroDivisionError')
    try:
        l2p = t.L2P(v)
    except (ValueError, OverflowError) as e:
        return ('err', type(e).__name__)
    return ('ok', w, pos, l2p, t)


def exact_p(kind, lL, rL, v):
    """the exact normalised position the float code approximates (log: from the float logarithms it computes)"""
    if kind == 'lin':
        return (Fr(v) - Fr(lL)) / (Fr(rL) - Fr(lL)), None
    a = math.log10(v / lL); d = math.log10(rL / lL)
    return Fr(a) / Fr(d), (a, d)


def tolerances(p, lP, rP):
    W = Fr(rP) - Fr(lP)
    eps_p = abs(p) / 2 ** 50 + Fr(1, 2 ** 1060)
    tol_pos = W * (eps_p + Fr(1, 2 ** 50)) + (abs(Fr(lP)) + abs(Fr(rP))) / 2 ** 50
    return W, eps_p, tol_pos


def float_ok(*xs):
    return all(isinstance(x, int) or (x == x and abs(x) != math.inf) for x in xs)


def well_conditioned(kind, lL, rL, v):
    """inputs for which no float intermediate of the code overflows/underflows: the property's working domain"""
    try:
        if kind == 'lin':
            den = rL - lL
            if not float_ok(den) or den == 0: return False
            q = (v - lL) / den
            s = 8.0 / den
            return float_ok(q, v - lL, s, s * lL, s * v) and abs(q) < 1e300
        if lL <= 0 or rL <= 0 or v <= 0: return False
        r = rL / lL; x = v / lL
        if not float_ok(r, x) or r <= 0 or x <= 0: return False
        d = math.log10(r)
        return d != 0 and float_ok(8.0 / d, math.log10(x) / d)
    except (OverflowError, ZeroDivisionError, ValueError):
        return False


def oracle_wrap(ctx, case, kind, lP, rP, lL, rL, bu, v, res):
    """property on the implementation alone (reference: fractions.Fraction)"""
    ctx.count('oracle_cases')
    valid_phys = lP < rP
    valid_scale = (lL != rL) if kind == 'lin' else (lL > 0 and rL > 0 and lL != rL)
    if not (valid_phys and valid_scale):
        if res[0] != 'err':
            ctx.fail(case, f'constructor accepted an invalid scale/track: {res[:4]}')
        return
    if kind == 'log' and v <= 0:
        if res != ('err', 'LineTransBaseMath'):
            ctx.fail(case, f'non-positive value on a log scale not refused with ExceptionLineTransBaseMath: {res[:4]}')
        else:
            ctx.nontriv((kind, 'refused', case['sc'], case['vc']))
        return
    if not well_conditioned(kind, lL, rL, v):
        # float overflow/underflow inside the code: outside the working domain of the in-track oracle
        ctx.count('ill_conditioned')
        if res == ('err', 'LineTransBaseMath'):
            ctx.count('overflow_refused')          # refused with the exception the plotting loop catches: the repaired behaviour
        elif res[0] == 'err':
            ctx.fail(case, f'finite value on a valid scale escapes as {res[1]} (float overflow/underflow in wrapPos/ctor) '
                           f'instead of a position or ExceptionLineTransBaseMath')
        return
    if res[0] == 'err':
        ctx.fail(case, f'valid scale and finite value but {res[1]} raised'); return
    _, w, pos, l2p, t = res
    if not isinstance(w, int) or not float_ok(pos, l2p):
        ctx.fail(case, f'non-finite result w={w!r} pos={pos!r} l2p={l2p!r}'); return
    p, _ = exact_p(kind, lL, rL, v)
    W, eps_p, tol_pos = tolerances(p, lP, rP)
    fl = math.floor(p)
    fr = p - fl
    dist = min(fr, 1 - fr)
    near = dist <= max(E40, eps_p)
    # 1. inside the track (left edge inclusive; right edge only reachable by rounding at a floor boundary)
    if not (lP <= pos <= rP):
        ctx.fail(case, f'position {pos!r} outside the track [{lP!r}, {rP!r}] (wrap {w})'); return
    if pos == rP:
        ctx.count('fp_pos_equals_rightP')
        if not near and Fr(rP) - Fr(lP) > 0 and (1 - fr) * W > tol_pos:
            ctx.fail(case, f'position equals the right edge although the exact fractional part is {float(fr)!r}'); return
    # 2. identity pos + w*W = L2P(v) on the float outputs
    scale = abs(Fr(t._scale))
    if kind == 'lin':
        mag = scale * (abs(Fr(v)) + abs(Fr(lL)))
    else:
        mag = scale * (abs(Fr(math.log10(v))) + abs(Fr(math.log10(lL))) + 1)
    bound = (abs(Fr(lP)) + abs(Fr(rP)) + mag + abs(p) * W) / 2 ** 44 + Fr(1, 2 ** 1000)
    lhs = Fr(pos) + w * W
    if abs(lhs - Fr(l2p)) > bound:
        ctx.fail(case, f'pos + wrap*width = {float(lhs)!r} but L2P = {l2p!r} (wrap {w}, pos {pos!r}, bound {float(bound):.3g})'); return
    # 3. the wrap count is the floor of the exact normalised position (unless at a floor boundary)
    if w != fl:
        if near and abs(w - fl) <= 1 + math.floor(eps_p):
            ctx.count('fp_floor_boundary_oracle')
        else:
            ctx.fail(case, f'wrap count {w} but the exact normalised position is {float(p)!r} (floor {fl})'); return
    wc = max(-9, min(9, w))
    if w != 0:
        ctx.nontriv((kind, case['sc'], case['vc'], wc))


def corr_wrap(ctx, case, kind, lP, rP, lL, rL, v, res, reply):
    """error-bounded comparison of the float implementation with the exact model reply"""
    if res[0] == 'err':
        impl = 'err ' + res[1]
        if res[1] in ('OverflowError',) or (res[1] in ('ValueError', 'LineTransBaseMath', 'ZeroDivisionError') and reply.startswith('ok')
                                            and not well_conditioned(kind, lL, rL, v)):
            ctx.count('fp_overflow_not_in_model'); return       # the exact model cannot overflow/underflow: named float behaviour
        ctx.corr('wrap' + kind, case, impl, reply); return
    if not reply.startswith('ok'):
        ctx.corr('wrap' + kind, case, f'ok {res[1]} {res[2]!r}', reply); return
    _, w, pos, l2p, t = res
    _, wm, posm, l2pm = reply.split(' ')
    wm = int(wm); posm = pr(posm); l2pm = pr(l2pm)
    if not float_ok(pos, l2p):
        ctx.count('fp_overflow_not_in_model'); return
    if kind == 'lin':
        p = (Fr(v) - Fr(lL)) / (Fr(rL) - Fr(lL))
    else:
        p = Fr(math.log10(v / lL)) / Fr(math.log10(rL / lL))
    W, eps_p, tol_pos = tolerances(p, lP, rP)
    fr = p - math.floor(p)
    dist = min(fr, 1 - fr)
    ok = False
    if w == wm:
        ok = abs(Fr(pos) - posm) <= tol_pos
        cls = 'same'
    elif eps_p >= Fr(1, 2):
        ok = abs(w - p) <= eps_p + 1 and lP <= pos <= rP
        cls = 'fp_no_fraction'
    elif abs(w - wm) == 1 and dist <= max(E40, eps_p):
        ok = abs((Fr(pos) + w * W) - (posm + wm * W)) <= tol_pos
        cls = 'fp_floor_boundary'
    else:
        cls = 'differ'
    if ok and cls != 'same':
        ctx.count(cls)
    # L2P
    scale = abs(Fr(t._scale))
    mag = scale * ((abs(Fr(v)) + abs(Fr(lL))) if kind == 'lin' else (abs(Fr(math.log10(v))) + abs(Fr(math.log10(lL))) + 1))
    ok2 = abs(Fr(l2p) - l2pm) <= (abs(Fr(lP)) + abs(Fr(rP)) + mag) / 2 ** 44 + Fr(1, 2 ** 1000)
    if kind == 'log':
        ok2 = True if not ok2 and abs(Fr(l2p) - l2pm) <= (abs(p) * W + mag) / 2 ** 40 else ok2
    impl = reply if (ok and ok2) else f'ok {w} {rs(pos)} {rs(l2p)}'
    ctx.corr('wrap' + kind, case, impl, reply)


def wrap_request(kind, lP, rP, lL, rL, v):
    if kind == 'lin':
        return f'wraplin {rs(lP)} {rs(rP)} {rs(lL)} {rs(rL)} {rs(v)}'
    def lg(x):
        try:
            y = math.log10(x)
            return rs(y) if float_ok(y) else '0'
        except (ValueError, OverflowError, ZeroDivisionError):
            return '0'
    def dv(a, b):
        try:
            q = a / b
            return q if float_ok(q) else 0.0
        except (ZeroDivisionError, OverflowError):
            return 0.0
    return f'wraplog {rs(lP)} {rs(rP)} {rs(lL)} {rs(rL)} {rs(v)} {lg(dv(v, lL))} {lg(dv(rL, lL))} {lg(lL)} {lg(v)}'


def run_wrap(ctx):
    PRESCfg, Plot, Coord = _mods()
    rng = ctx.rng
    cases = []
    fixed = [('lin', 0.0, 2.4, -80.0, 20.0, 'ONCE', 45.0, 'typ', 'fixed'), ('lin', 0.0, 2.4, 0.0, 0.1, 'ALL', 0.3, 'typ', 'fixed'),
             ('lin', 3.2, 8.0, 0.45, -0.15, 'ALL', 1516301.25, 'typ', 'fixed'), ('log', 3.2, 8.0, 0.2, 2000.0, 'NONE', 2000.0, 'typ', 'fixed'),
             ('log', 3.2, 8.0, 0.2, 2000.0, 'NONE', 0.2, 'typ', 'fixed'), ('log', 3.2, 8.0, 0.2, 2000.0, 'NONE', -1.0, 'typ', 'fixed'),
             ('lin', 0.0, 1.0, 0.0, 1.0, 'ALL', -1e-20, 'typ', 'fixed'), ('lin', 0.0, 1.0, 0.0, 1e-5, 'ALL', 1e308, 'typ', 'overflow'),
             ('lin', 0.0, 1.0, -1e308, 1e308, 'ALL', 1e308, 'ext', 'overflow'), ('log', 0.0, 1.0, 1e30, 1e31, 'ALL', 1e-300, 'ext', 'underflow')]
    cases += fixed
    for _ in range(ctx.n(30000, 300000)):
        (lP, rP) = gen_phys(rng); (lL, rL), sc = gen_lin_scale(rng); v, vc = gen_value(rng, lL, rL)
        cases.append(('lin', lP, rP, lL, rL, rng.choice(list(BACKUPS)), v, sc, vc))
    for _ in range(ctx.n(15000, 150000)):
        (lP, rP) = gen_phys(rng); (lL, rL), sc = gen_log_scale(rng); v, vc = gen_log_value(rng, lL, rL)
        cases.append(('log', lP, rP, lL, rL, rng.choice(list(BACKUPS)), v, sc, vc))
    # several transforms with IDENTICAL scale edges on DIFFERENT tracks evaluated on IDENTICAL values, back to back
    # (a result must depend on the physical track edges too)
    tracks = [(0.0, 2.4), (3.2, 5.6), (5.6, 8.0), (3.2, 8.0), (0.0, 1.2), (0.25, 0.75)]
    for _ in range(ctx.n(400, 4000)):
        if rng.random() < 0.6:
            (lL, rL), sc = gen_lin_scale(rng); v, vc = gen_value(rng, lL, rL); k = 'lin'
        else:
            (lL, rL), sc = gen_log_scale(rng); v, vc = gen_log_value(rng, lL, rL); k = 'log'
        bu = rng.choice(list(BACKUPS))
        for (lP, rP) in rng.sample(tracks, 3):
            cases.append((k, lP, rP, lL, rL, bu, v, sc, 'same-scale-' + vc))
    cases = [c for c in cases if float_ok(*c[1:5], c[6])]
    have_model = getattr(ctx, 'model_available', True)
    replies = ctx.lean([wrap_request(k, lP, rP, lL, rL, v) for (k, lP, rP, lL, rL, bu, v, sc, vc) in cases]) if have_model else [None] * len(cases)
    for (k, lP, rP, lL, rL, bu, v, sc, vc), reply in zip(cases, replies):
        case = {'op': 'wrap', 'kind': k, 'lP': lP.hex(), 'rP': rP.hex(), 'lL': lL.hex(), 'rL': rL.hex(), 'bu': bu, 'v': v.hex(),
                'sc': sc, 'vc': vc}
        res = impl_wrap(PRESCfg, k, lP, rP, lL, rL, BACKUPS[bu], v)
        oracle_wrap(ctx, case, k, lP, rP, lL, rL, bu, v, res)
        if reply is not None:
            corr_wrap(ctx, case, k, lP, rP, lL, rL, v, res, reply)
    ctx.sample({'op': 'wrap', 'case': list(cases[len(cases) // 3][:7]), 'model_reply': (replies[len(cases) // 3] or '')[:120]})
    ctx.count('wrap_cases', len(cases))


# ------------------------------------------------------------------------------------------------ offScale / interp / filter

def offscale_expected(nm, w):
    """the documented meaning of the back-up modes the MODE map uses (independent of the code)"""
    if nm == 'ALL': return 0
    if nm == 'NONE': return (w > 0) - (w < 0)
    if nm == 'ONCE': return -1 if w < -1 else 1 if w > 1 else 0
    if nm == 'TWICE': return -1 if w < -2 else 1 if w > 2 else 0
    return None


def run_offscale(ctx):
    PRESCfg, Plot, Coord = _mods()
    bus = list(BACKUPS.values()) + [(-3, 2), (0, 5), (-4, 0), (2, 2), (-1, -1), (3, -3)]
    ws = list(range(-8, 9)) + [10 ** 6, -10 ** 6, 10 ** 300, -10 ** 300]
    req, cs = [], []
    for b in bus:
        for w in ws:
            req.append(f'offscale {b[0]} {b[1]} {w}'); cs.append((b, w))
    rep = ctx.lean(req) if getattr(ctx, 'model_available', True) else [None] * len(req)
    named = {v: k for k, v in BACKUPS.items()}
    for (b, w), r in zip(cs, rep):
        t = PRESCfg.LineTransLin(0.0, 1.0, 0.0, 1.0, b)
        o = t.offScale(w)
        impl = f'{o} {str(t.isOffScaleLeft(w)).lower()} {str(t.isOffScaleRight(w)).lower()}'
        case = {'op': 'offscale', 'bu': list(b), 'w': w}
        if r is not None:
            ctx.corr('offscale', case, impl, r)
        ctx.count('oracle_cases')
        # independent statement of the documented back-up modes
        nm = named.get(b)
        exp = offscale_expected(nm, w)
        if exp is not None and o != exp:
            ctx.fail(case, f'offScale({w}) = {o} for back-up {nm}, expected {exp}')
        elif o not in (-1, 0, 1) or (o == -1 and w >= 0) or (o == 1 and w <= 0):
            ctx.fail(case, f'offScale({w}) = {o} inconsistent with the sign of the wrap count')
        else:
            ctx.nontriv(('offscale', b, max(-3, min(3, w))))
    ctx.extra['exhaustive_scope'] = 'offScale: 12 back-up tuples x wrap counts -8..8 and +-1e6, +-1e300 (complete grid)'


def _int_overflows_double(n):
    try:
        float(n); return False
    except OverflowError:
        return True


def impl_interp(Plot, PRESCfg, Coord, bu, xp, xn, wp, wn, pNow=1.25):
    P = Plot.Plot.__new__(Plot.Plot)
    L = Coord.Dim(0.5, 'in'); R = Coord.Dim(2.9, 'in')
    twd = PRESCfg.TrackWidthData(L, R, 0, 2)
    ltb = PRESCfg.LineTransLin(0.5, 2.9, 0.0, 1.0, bu)
    try:
        pe, cl, pn = P._retInterpolateWrapPoints(twd, ltb, xp, xn, pNow, wp, wn)
    except AssertionError:
        return 'err AssertionError', None
    except (OverflowError, ZeroDivisionError, IndexError) as e:
        return 'err ' + type(e).__name__, None
    def ed(d):
        return 'L' if d is L else 'R' if d is R else '?'
    return 'ok', (None if pe is None else (pe[0], ed(pe[1])), [(x, ed(d)) for x, d in cl],
                  None if not pn else (pn[0][0], ed(pn[0][1]), pn[1][0], pn[1][1], len(pn)))


def run_interp(ctx):
    PRESCfg, Plot, Coord = _mods()
    rng = ctx.rng
    M = Plot.Plot.MAX_BACKUP_TRACK_CROSSING_LINES
    cs = []
    for bu in BACKUPS.values():
        for wp in range(-5, 6):
            for wn in range(-12, 13):
                cs.append((bu, 5000.0, 4999.5, wp, wn)); cs.append((bu, 100.0, 100.25, wp, wn))
    for _ in range(ctx.n(3000, 40000)):
        bu = rng.choice(list(BACKUPS.values()) + [(-3, 2), (0, 4)])
        xp = rng.randint(-10 ** 6, 10 ** 6) / rng.choice([1, 2, 4, 8, 10])
        xn = xp + rng.choice([-1, 1]) * rng.choice([0.5, 0.25, 60.0, 1.0, 0.1524, 6.0])
        wp = rng.randint(-20, 20); wn = rng.choice([rng.randint(-20, 20), rng.randint(-10 ** 7, 10 ** 7), wp + rng.randint(-9, 9)])
        cs.append((bu, xp, xn, wp, wn))
    # wrap jumps at the top of the double range (reachable: wrapPos returns floor(p) for any finite p <= 1.8e308)
    for wp, wn in ((0, 2 ** 1023 - 1), (0, 2 ** 1023), (-(2 ** 1023), 2 ** 1023), (3, int(1e308)), (int(-1.7e308), int(1.7e308)), (0, int(8.9e307))):
        cs.append(((0, 0), 5000.0, 4999.5, wp, wn))
    rep = ctx.lean([f'interp {M} {b[0]} {b[1]} {rs(xp)} {rs(xn)} {wp} {wn}' for b, xp, xn, wp, wn in cs]) \
        if getattr(ctx, 'model_available', True) else [None] * len(cs)
    for (b, xp, xn, wp, wn), r in zip(cs, rep):
        case = {'op': 'interp', 'bu': list(b), 'xp': xp.hex(), 'xn': xn.hex(), 'wp': wp, 'wn': wn}
        st, out = impl_interp(Plot, PRESCfg, Coord, b, xp, xn, wp, wn)
        ctx.count('oracle_cases')
        tol = (abs(xp) + abs(xn) + 1) * 1e-12
        if wp == wn:
            if st != 'err AssertionError':
                ctx.fail(case, f'equal wrap counts not refused: {st}')
        elif st != 'ok':
            huge = _int_overflows_double(2 * abs(wn - wp))
            ctx.fail(case, f'_retInterpolateWrapPoints raised {st}' + (' (2*abs(wrapDiff) does not fit a double)' if huge else ''),
                     finding='C19-wrap-interpolation-overflow' if huge and st == 'err OverflowError' else None)
        else:
            pe, cl, pn = out
            lo, hi = min(xp, xn), max(xp, xn)
            pts = ([pe] if pe else []) + cl + ([pn[:2]] if pn else [])
            # strictly between, except that xPrev + xInc rounds back onto the frame when the wrap jump exceeds 2^40 (float rounding)
            strict = abs(wn - wp) < 2 ** 40
            bad = [q for q in pts if not ((lo < q[0] < hi) if strict else (lo <= q[0] <= hi)) or q[1] not in 'LR']
            if not strict:
                ctx.count('fp_interp_on_frame')
            if bad:
                ctx.fail(case, f'interpolated point {bad[0]} not strictly between the frames {xp!r}, {xn!r} on a track edge')
            elif len(cl) % 2 or len(cl) > 2 * M:
                ctx.fail(case, f'{len(cl)} crossing-line points (maximum {2 * M}, must be even)')
            elif any(cl[i][1] == cl[i + 1][1] for i in range(0, len(cl), 2)):
                ctx.fail(case, 'a crossing line does not span the track (both ends on the same edge)')
            elif pn and (pn[4] != 2 or pn[2] != xn or pn[3] != 1.25):
                ctx.fail(case, f'new polyline does not end at the current frame: {pn}')
            else:
                ctx.nontriv(('interp', b, max(-10, min(10, wn - wp)), pe is None, pn is None))
        if r is None:
            continue
        if st == 'err OverflowError' and r.startswith('ok') and _int_overflows_double(2 * abs(wn - wp)):
            ctx.count('fp_overflow_not_in_model'); continue      # the exact model has no int -> double conversion
        if st != 'ok' or not r.startswith('ok'):
            ctx.corr('interp', case, st, r); continue
        _, mpe, mcl, mpn = r.split(' ')
        def mp(s):
            x, e = s.split('@'); return (pr(x), e)
        ok = (mpe == 'N') == (pe is None) and (mpn == 'N') == (pn is None)
        mc = [] if mcl == '-' else [mp(s) for s in mcl.split(',')]
        ok = ok and len(mc) == len(cl)
        if ok:
            pairs = ([(pe, mp(mpe))] if pe else []) + list(zip(cl, mc)) + ([(pn[:2], mp(mpn))] if pn else [])
            ok = all(a[1] == m[1] and abs(Fr(a[0]) - m[0]) <= Fr(tol) for a, m in pairs)
        ctx.corr('interp', case, r if ok else f'ok {pe} {cl} {pn}', r)
    ctx.count('interp_cases', len(cs))


def run_filter(ctx):
    PRESCfg, Plot, Coord = _mods()
    rng = ctx.rng
    M = Plot.Plot.MAX_BACKUP_TRACK_CROSSING_LINES
    ns = list(range(0, ctx.n(300, 2000))) + [rng.randint(300, 20000) for _ in range(ctx.n(50, 400))]
    rep = ctx.lean([f'filter {M} {n}' for n in ns]) if getattr(ctx, 'model_available', True) else [None] * len(ns)
    P = Plot.Plot.__new__(Plot.Plot)
    for n, r in zip(ns, rep):
        case = {'op': 'filter', 'n': n}
        try:
            out = P._filterCrossLineList(list(range(2 * n)))
            impl = 'ok ' + (','.join(map(str, out)) if out else '-')
        except (IndexError, AssertionError) as e:
            out, impl = None, 'err ' + type(e).__name__
        if r is not None:
            ctx.corr('filter', case, impl, r)
        ctx.count('oracle_cases')
        if out is None:
            ctx.fail(case, f'_filterCrossLineList raised on {n} pairs: {impl}')
        elif n <= M and out != list(range(2 * n)):
            ctx.fail(case, 'short list not returned unchanged')
        elif n > M and (len(out) % 2 or len(out) > 2 * M or out[:2] != [0, 1]
                        or any(out[i] % 2 or out[i + 1] != out[i] + 1 for i in range(0, len(out), 2))
                        or any(out[i] >= out[i + 2] for i in range(0, len(out) - 2, 2))):
            ctx.fail(case, f'filtered list is not an increasing selection of at most {M} whole pairs starting with the first: {out}')
        else:
            ctx.nontriv(('filter', n if n < 40 else 40 + n % 7))
            if n > M and out[-1] != 2 * n - 1:
                ctx.count('filter_drops_last_pair')      # docstring says "first and last"; not part of C19


# ------------------------------------------------------------------------------------------------ entry points

def run(ctx):
    run_wrap(ctx)
    run_offscale(ctx)
    run_interp(ctx)
    run_filter(ctx)
    from props import c19_svg, c19_plotlogs
    c19_svg.run_svg(ctx)
    c19_plotlogs.run_plotlogs(ctx)
    for k in ('fp_floor_boundary', 'fp_no_fraction', 'fp_pos_equals_rightP', 'fp_overflow_not_in_model', 'filter_drops_last_pair'):
        ctx.note(f'{k}: {ctx.stats.get(k, 0)} case(s) on this run')


def replay(ctx, rec):
    PRESCfg, Plot, Coord = _mods()
    case = rec['case']
    n0 = len(ctx.failures)
    op = case.get('op')
    if op == 'wrap':
        f = float.fromhex
        lP, rP, lL, rL, v = f(case['lP']), f(case['rP']), f(case['lL']), f(case['rL']), f(case['v'])
        res = impl_wrap(PRESCfg, case['kind'], lP, rP, lL, rL, BACKUPS[case['bu']], v)
        oracle_wrap(ctx, case, case['kind'], lP, rP, lL, rL, case['bu'], v, res)
        detail = str(res[:4])
    elif op in ('offscale', 'interp', 'filter'):
        # re-run the small deterministic streams; the failing case is part of them or is re-evaluated directly
        if op == 'offscale':
            t = PRESCfg.LineTransLin(0.0, 1.0, 0.0, 1.0, tuple(case['bu']))
            o, w = t.offScale(case['w']), case['w']
            exp = offscale_expected({v: k for k, v in BACKUPS.items()}.get(tuple(case['bu'])), w)
            good = (o == exp) if exp is not None else (o in (-1, 0, 1) and not (o == -1 and w >= 0) and not (o == 1 and w <= 0))
            return good, f'offScale({w}) = {o} for back-up {tuple(case["bu"])}' + ('' if good else f', expected {exp}')
        if op == 'filter':
            P = Plot.Plot.__new__(Plot.Plot); M = Plot.Plot.MAX_BACKUP_TRACK_CROSSING_LINES; n = case['n']
            try:
                out = P._filterCrossLineList(list(range(2 * n)))
            except (IndexError, AssertionError) as e:
                return False, f'raises {type(e).__name__}'
            good = (out == list(range(2 * n))) if n <= M else (len(out) <= 2 * M and out[:2] == [0, 1] and len(out) % 2 == 0
                    and all(out[i + 1] == out[i] + 1 and out[i] % 2 == 0 for i in range(0, len(out), 2)))
            return good, f'result {out}'
        f = float.fromhex
        st, out = impl_interp(Plot, PRESCfg, Coord, tuple(case['bu']), f(case['xp']), f(case['xn']), case['wp'], case['wn'])
        if st != 'ok':
            return case['wp'] == case['wn'], st
        pe, cl, pn = out
        lo, hi = sorted((f(case['xp']), f(case['xn'])))
        pts = ([pe] if pe else []) + cl + ([pn[:2]] if pn else [])
        M = Plot.Plot.MAX_BACKUP_TRACK_CROSSING_LINES
        strict = abs(case['wn'] - case['wp']) < 2 ** 40
        good = all(((lo < q[0] < hi) if strict else (lo <= q[0] <= hi)) and q[1] in 'LR' for q in pts) and len(cl) % 2 == 0 and len(cl) <= 2 * M \
            and not any(cl[i][1] == cl[i + 1][1] for i in range(0, len(cl), 2)) and (not pn or (pn[4] == 2 and pn[2] == f(case['xn'])))
        return good, f'{out}'
    elif op == 'svg':
        from props import c19_svg
        return c19_svg.replay_svg(ctx, case)
    elif op == 'plotlogs':
        from props import c19_plotlogs
        return c19_plotlogs.replay_plotlogs(ctx, case)
    else:
        return True, 'nothing to replay (no concrete failing input was recorded)'
    new = [f for f in ctx.failures[n0:] if f['finding'] is None]
    if new:
        return False, new[-1]['detail']
    known = sorted({f['finding'] for f in ctx.failures[n0:] if f['finding']})
    return True, detail + (f' (known finding on this case: {", ".join(known)})' if known else '')
