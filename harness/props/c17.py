"""C17 — Unit conversion is consistent: invertible, transitive, dimension-checked
(TotalDepth/common/units.py + data/osdd_units.json, TotalDepth/LIS/core/Units.py, LIS/core/EngVal.py)."""
import ast, math, os, struct
from fractions import Fraction

CLAIM = {
 'text': ('Proof for the exact laws, partial for the rounding clause. Lean 4 theorems over Q, for ALL values and ALL entries of the '
          'tables as they are in the repository now (osdd_units.json: 2035 units / 134 dimensions; LIS __RAW_UNIT_MAP: 186 units / 38 '
          'categories; both regenerated into Lean on every run): scale_ne_zero / lis_mult_ne_zero (kernel evaluation over the whole '
          'table), identity, roundtrip, transitive (+ osdd_* / lis_* table instances), convert_spec (the coded two-branch formula is the '
          'affine map through the base unit), dimension_checked, convert_ok_iff (a number exactly when the dimensions agree), '
          'unknown_unit_refused, category_mismatch_refused, lis_convert_ok_iff, lis_refusal_is_units_error, convertArray_eq_map, '
          'convertArrayInplace_eq_map (both with the refusal), array_elementwise, array_dimension_checked, convertArrayInplace_eq_convertArray (every number type), EngVal entry points. '
          'PARTIAL: "to within floating-point rounding" is not a theorem (IEEE rounding of Float is opaque to the Lean kernel); it is '
          'exercised on every run - every ordered pair of every dimension/category at several magnitudes, round trips, triples, array '
          'forms - against exact fractions.Fraction results with a running error bound derived on paper (stated in the evidence).'),
 'note': ('Trusted: Lean kernel; the hand-written model, tied to the code on every run by a bit-for-bit comparison of its binary64 '
          'instance (same generic definition as the Rat instance the theorems are about) with the implementation on > 10^6 cases, and by '
          'comparing the generated tables with what the implementation loads; the generator harness/props/c17.py::translate; the paper '
          'derivation of the rounding bound (standard model of IEEE arithmetic, no overflow/underflow at the tested magnitudes). '
          'Not covered: float32 / integer arrays, non-finite values, values so large that binary64 overflows.'),
 'technique': 'Lean 4 proof (field algebra over Rat, decide +kernel over generated tables) + model-implementation correspondence + exact-arithmetic rounding oracle',
 'design_ref': 'DESIGN.md section 6 C17',
}
RULE = ('OSDD: every ordered pair of units of one dimension (102 825 pairs incl. a = a) x 7 (quick) / 29 (thorough) finite values of '
        'magnitudes 1e-12..1e15 with random mantissa and sign: scalar convert, convert_function, convert_array, convert_array_inplace, '
        'round trip; sampled triples per dimension; refusals (all four entry points, in-place array must stay untouched): one random pair for every ordered pair of dimensions + random cross pairs '
        '(quick) / every ordered cross-dimension pair (thorough). LIS: every ordered pair and every triple of every category, every '
        'ordered pair of different categories, unknown names (fixed list + random 3-5 byte names, str instead of bytes); EngVal '
        'getInUnits/convert/newEngValInUnits/arithmetic on all same-category pairs + sampled refusals. A case is non-trivial when the '
        'two (three) units differ and the value is non-zero, or when it is a refusal; distinct by the unit codes involved.')
ASSUMPTIONS = ['binary64 arithmetic of CPython/numpy follows IEEE 754 round-to-nearest (the rounding bound is derived from that)',
               'float64 numpy arrays (the in-place form cannot hold the result in an integer array; float32 rounds the table constants too)',
               'the OSDD table is the static snapshot read by read_osdd_static_data(); the live HTTP table of _slb_units() is never fetched',
               'LIS/core/Units.py is imported with assert statements enabled (they check the uniqueness the model also proves for the generated table)',
               'refusal is demanded of every entry point: convert, convert_function, convert_array, convert_array_inplace (array left untouched), LIS convert, EngVal']
TRUSTED = ['modelled, not verified: numpy broadcasting of a scalar over a float64 array = List.map; Python dict lookup = first match in a list with unique keys',
           'generated, compared on every run: lean/TD/TD/Gen/C17Osdd.lean and C17Lis.lean (exact rationals of the table doubles) vs the Unit / UnitConvert objects of the imported modules',
           'paper derivation of the running error bound used by the rounding oracle (text in coverage.rounding_bound)']

ANCHOR_FILES = ['src/TotalDepth/common/units.py', 'src/TotalDepth/common/data/osdd_units.json',
                'src/TotalDepth/LIS/core/Units.py', 'src/TotalDepth/LIS/core/EngVal.py']

CHUNK = 64          # rows per generated Lean list literal


# ------------------------------------------------------------------ translate: /repo sources -> Lean tables

def _repo():
    import core
    return core.REPO


def _gen_dir():
    import core
    return os.path.join(core.LEAN_DIR, 'TD', 'Gen')


def lean_str(s: str) -> str:
    out = []
    for ch in s:
        o = ord(ch)
        if ch == '"': out.append('\\"')
        elif ch == '\\': out.append('\\\\')
        elif 0x20 <= o < 0x7f: out.append(ch)
        else: out.append('\\u{%x}' % o)
    return '"' + ''.join(out) + '"'


def ratio(x):
    """Exact (numerator, denominator) of a Python float / int; (0, 0) marks a value that is not a finite number."""
    if isinstance(x, bool) or not isinstance(x, (int, float)):
        return 0, 0
    if isinstance(x, float) and not math.isfinite(x):
        return 0, 0
    f = Fraction(x)
    return f.numerator, f.denominator


def _lean_int(n: int) -> str:
    return str(n) if n >= 0 else f'({n})'


def read_osdd(repo=None):
    """The table as the code reads it offline: TotalDepth.common.units.read_osdd_static_data() (never the HTTP path)."""
    from TotalDepth.common import units
    src = os.path.realpath(units.__file__)
    want = os.path.realpath(os.path.join(repo or _repo(), 'src', 'TotalDepth', 'common', 'units.py'))
    if src != want:
        import core
        raise core.InfraError(f'TotalDepth imported from {src}, expected {want}')
    return units.read_osdd_static_data()


def osdd_lean(table) -> str:
    rows = []
    for key, u in table.items():
        sn, sd = ratio(u.scale)
        on, od = ratio(u.offset)
        rows.append(f'  ⟨{lean_str(str(key))}, {lean_str(str(u.code))}, {lean_str(str(u.dimension))}, {_lean_int(sn)}, {sd}, {_lean_int(on)}, {od}⟩')
    out = ['/-',
           'GENERATED by harness/props/c17.py translate() from src/TotalDepth/common/data/osdd_units.json as read by',
           'TotalDepth.common.units.read_osdd_static_data(). Rewritten on every run of ./check C17. Do not edit.',
           'Row = (dictionary key, code, dimension, scale numerator, scale denominator, offset numerator, offset denominator);',
           'numerator/denominator is the exact rational value of the JSON double (denominator 0 marks a non-finite value).',
           '-/',
           'namespace TD.Gen.C17Osdd',
           '',
           'structure Row where',
           '  key : String',
           '  code : String',
           '  dim : String',
           '  sn : Int',
           '  sd : Nat',
           '  on : Int',
           '  od : Nat',
           '']
    names = []
    for k in range(0, len(rows), CHUNK):
        name = f'c{k // CHUNK}'
        names.append(name)
        out.append(f'def {name} : List Row := [')
        out.append(',\n'.join(rows[k:k + CHUNK]))
        out.append(']')
        out.append('')
    out.append('def chunks : List (List Row) := [' + ', '.join(names) + ']')
    out.append('')
    out.append('def rows : List Row := chunks.flatten')
    out.append('')
    out.append(f'def rowCount : Nat := {len(rows)}')
    out.append('')
    out.append('end TD.Gen.C17Osdd')
    return '\n'.join(out) + '\n'


class _Eval(ast.NodeVisitor):
    """Evaluates the literal expressions of LIS/core/Units.py::__RAW_UNIT_MAP with Python float arithmetic (what the import does)."""
    def __init__(self, env):
        self.env = env

    def ev(self, n):
        if isinstance(n, ast.Constant):
            return n.value
        if isinstance(n, ast.Name):
            return self.env[n.id]
        if isinstance(n, ast.Attribute) and isinstance(n.value, ast.Name) and n.value.id == 'math':
            return getattr(math, n.attr)
        if isinstance(n, ast.Tuple):
            return tuple(self.ev(e) for e in n.elts)
        if isinstance(n, ast.List):
            return [self.ev(e) for e in n.elts]
        if isinstance(n, ast.Dict):
            return {self.ev(k): self.ev(v) for k, v in zip(n.keys, n.values)}
        if isinstance(n, ast.UnaryOp):
            v = self.ev(n.operand)
            if isinstance(n.op, ast.USub): return -v
            if isinstance(n.op, ast.UAdd): return +v
        if isinstance(n, ast.BinOp):
            a, b = self.ev(n.left), self.ev(n.right)
            if isinstance(n.op, ast.Add): return a + b
            if isinstance(n.op, ast.Sub): return a - b
            if isinstance(n.op, ast.Mult): return a * b
            if isinstance(n.op, ast.Div): return a / b
            if isinstance(n.op, ast.Pow): return a ** b
            if isinstance(n.op, ast.FloorDiv): return a // b
        if isinstance(n, ast.Call) and isinstance(n.func, ast.Attribute) and isinstance(n.func.value, ast.Name) \
                and n.func.value.id == 'math' and not n.keywords:
            return getattr(math, n.func.attr)(*[self.ev(a) for a in n.args])
        raise ValueError(f'unsupported expression in __RAW_UNIT_MAP: {ast.dump(n)[:120]}')


def read_lis_raw(repo=None):
    """__RAW_UNIT_MAP of LIS/core/Units.py, evaluated from the source text (the module deletes the name after import)."""
    path = os.path.join(repo or _repo(), 'src', 'TotalDepth', 'LIS', 'core', 'Units.py')
    tree = ast.parse(open(path, encoding='utf-8').read())
    env = {}
    ev = _Eval(env)
    for node in tree.body:
        if isinstance(node, ast.Assign) and len(node.targets) == 1 and isinstance(node.targets[0], ast.Name):
            name = node.targets[0].id
            if name == '__RAW_UNIT_MAP':
                return ev.ev(node.value)
            try:
                env[name] = ev.ev(node.value)
            except (ValueError, KeyError):
                pass
    raise ValueError('__RAW_UNIT_MAP not found in ' + path)


def _b2s(b) -> str:
    """bytes -> String, injectively (latin-1); anything else -> its repr prefixed so that it cannot clash."""
    if isinstance(b, bytes):
        return b.decode('latin-1')
    return '␀' + repr(b)


def lis_rows(raw):
    """Flatten to [(cat, name, mult, offs-or-None)] in source order; the 4-tuple / 5-tuple rule of UnitConvert.__init__."""
    out = []
    for cat, (desc, base, units) in raw.items():
        for tup in units:
            if len(tup) == 4:
                out.append((cat, tup[0], tup[1], None))
            else:
                out.append((cat, tup[0], tup[1], tup[2]))
    return out


def lis_lean(raw) -> str:
    out = ['/-',
           'GENERATED by harness/props/c17.py translate() from __RAW_UNIT_MAP in src/TotalDepth/LIS/core/Units.py (evaluated from the',
           'source text with Python float arithmetic). Rewritten on every run of ./check C17. Do not edit.',
           'Row = (unit name, multiplier numerator, denominator, has offset (5-tuple), offset numerator, denominator);',
           'names are the 4-byte LIS mnemonics decoded as latin-1; denominator 0 marks a value that is not a finite number.',
           '-/',
           'namespace TD.Gen.C17Lis',
           '',
           'structure Row where',
           '  name : String',
           '  mn : Int',
           '  md : Nat',
           '  hasOffs : Bool',
           '  on : Int',
           '  od : Nat',
           '',
           'structure Cat where',
           '  cat : String',
           '  base : String',
           '  units : List Row',
           '']
    names = []
    n = 0
    for k, (cat, (desc, base, units)) in enumerate(raw.items()):
        name = f'k{k}'
        names.append(name)
        rows = []
        for tup in units:
            mult = tup[1]
            offs = tup[2] if len(tup) == 5 else None
            mn, md = ratio(mult)
            on, od = ratio(offs) if offs is not None else (0, 1)
            rows.append(f'    ⟨{lean_str(_b2s(tup[0]))}, {_lean_int(mn)}, {md}, {"true" if offs is not None else "false"}, {_lean_int(on)}, {od}⟩')
            n += 1
        out.append(f'def {name} : Cat := ⟨{lean_str(_b2s(cat))}, {lean_str(_b2s(base))}, [')
        out.append(',\n'.join(rows))
        out.append('  ]⟩')
        out.append('')
    out.append('def cats : List Cat := [' + ', '.join(names) + ']')
    out.append('')
    out.append(f'def unitCount : Nat := {n}')
    out.append('')
    out.append('end TD.Gen.C17Lis')
    return '\n'.join(out) + '\n'


def _write_if_changed(path, text):
    old = None
    if os.path.exists(path):
        with open(path, encoding='utf-8') as fh:
            old = fh.read()
    if old != text:
        os.makedirs(os.path.dirname(path), exist_ok=True)
        tmp = path + '.tmp'
        with open(tmp, 'w', encoding='utf-8') as fh:
            fh.write(text)
        os.replace(tmp, path)
        return True
    return False


def translate(ctx):
    """Regenerate lean/TD/TD/Gen/C17Osdd.lean and C17Lis.lean from the sources under core.REPO (byte-deterministic)."""
    repo = _repo()
    a = _write_if_changed(os.path.join(_gen_dir(), 'C17Osdd.lean'), osdd_lean(read_osdd(repo)))
    b = _write_if_changed(os.path.join(_gen_dir(), 'C17Lis.lean'), lis_lean(read_lis_raw(repo)))
    if ctx is not None:
        ctx.note(f'translate: tables regenerated from {repo}/src (C17Osdd.lean {"rewritten" if a else "unchanged"}, '
                 f'C17Lis.lean {"rewritten" if b else "unchanged"})')


# ------------------------------------------------------------------ exact reference and the rounding bound

U53 = Fraction(1, 2 ** 53)            # unit roundoff of binary64 (round to nearest)
ETA = Fraction(1, 2 ** 1074)          # smallest subnormal: absolute slack per operation should a result underflow
_G = {n: (1 + U53) ** n - 1 for n in range(0, 6)}

BOUND_TEXT = (
    'Standard model fl(x op y) = (x op y)(1+d), |d| <= u = 2^-53 (binary64, round to nearest, no overflow; underflow '
    'covered by an absolute slack of 4*2^-1074). With A = the exact value before the final addition of the target offset '
    '(A = (v-o1)*s1/s2), E = A + o2 the exact result, n the number of operations before that addition (n = 3 with offsets: '
    '-,*,/ ; n = 2 without: *,/ scalar or /,* array; LIS: 2 or 3 by whether the source unit has an offset): '
    '|fl - E| <= |A|*((1+u)^n - 1)*(1+u) + u*|E| when the final + is executed, |fl - E| <= |E|*((1+u)^n - 1) otherwise. '
    'Composite laws: |convert(convert(v,a,b),b,c) - E_ac| <= bound_bc(w) + bound_ab(v)*|s_b/s_c| with w the computed '
    'intermediate (round trip: c = a, E_ac = v); scalar vs array forms differ by at most the sum of their two bounds.')


def err_bound(A, E, n_pre, has_add):
    b = abs(A) * _G[n_pre]
    if has_add:
        b = b * (1 + U53) + U53 * abs(E)
    return b + 4 * ETA


def fbits(x: float) -> int:
    return struct.unpack('>Q', struct.pack('>d', x))[0]


def bits_f(n: int) -> float:
    return struct.unpack('>d', struct.pack('>Q', n))[0]


def qstr(x) -> str:
    n, d = ratio(x)
    return f'{n}/{d}'


class OU:
    """One OSDD unit with its exact values (taken from the Unit object the implementation itself loaded)."""
    __slots__ = ('idx', 'key', 'unit', 's', 'o', 'has_off', 'finite')

    def __init__(self, idx, key, unit):
        self.idx, self.key, self.unit = idx, key, unit
        self.finite = ratio(unit.scale)[1] != 0 and ratio(unit.offset)[1] != 0
        self.s = Fraction(unit.scale) if self.finite else None
        self.o = Fraction(unit.offset) if self.finite else None
        self.has_off = unit.offset != 0.0


def osdd_exact(vF, a: OU, b: OU, array_form=False):
    """(E, A, n_pre, has_add) of the conversion a -> b as specified (affine map through the base unit), or None when no
    finite conversion exists (zero / non-finite scale)."""
    if not (a.finite and b.finite) or b.s == 0:
        return None
    if a.has_off or b.has_off:
        A = (vF - a.o) * a.s / b.s
        return A + b.o, A, 3, True
    A = vF * a.s / b.s
    return A, A, 2, False


def _units_exc(U):
    return U.ExceptionUnits


def osdd_call(U, fn, *args):
    """Run one implementation entry point: ('ok', value) | ('units', clsname) | ('exc', clsname)."""
    try:
        return 'ok', fn(*args)
    except U.ExceptionUnits as e:
        return 'units', type(e).__name__
    except Exception as e:                      # noqa: BLE001 - any other exception is a finding, not an infra error
        return 'exc', type(e).__name__


def canon(kind, val):
    if kind == 'ok':
        return f'ok {fbits(val)}' if isinstance(val, float) else f'ok ?{type(val).__name__}:{val!r}'
    if kind == 'units':
        return 'err units'
    return 'err ' + val


def canon_model(reply: str) -> str:
    if reply.startswith('err ExceptionUnits'):
        parts = reply.split(' ', 2)
        return 'err units' + (' ' + parts[2] if len(parts) > 2 else '')
    return reply


def is_num(x):
    return isinstance(x, float) and math.isfinite(x)


def corr_num(ctx, stream, case, impl, model, recheck):
    """Numeric streams are compared bit for bit with the Float instance of the model. A difference in bits only counts as a
    correspondence disagreement when the implementation's value is also outside the rounding bound of the exact value
    (recheck() returns a failure text): the property allows any evaluation order that stays within rounding."""
    if model is None:
        return
    m = canon_model(model)
    if impl != m and impl.startswith('ok ') and m.startswith('ok ') and recheck() is None:
        ctx.count('bitwise_differences_within_rounding_bound')
        ctx.corr(stream, case, 'ok (within rounding of the exact value)', 'ok (within rounding of the exact value)')
    else:
        ctx.corr(stream, case, impl, m)


def check_scalar(res, ex, what):
    """res = ('ok', float)...; ex = osdd_exact/lis_exact tuple. Returns None or a failure text."""
    kind, val = res
    if kind != 'ok':
        return f'{what}: raised {val} for two units of one dimension/category'
    if ex is None:
        return f'{what}: returned {val!r} although the table holds a zero or non-finite scale (no conversion exists)'
    if not is_num(val):
        return f'{what}: returned {val!r}, not a finite float'
    E, A, n_pre, has_add = ex
    B = err_bound(A, E, n_pre, has_add)
    d = abs(Fraction(val) - E)
    if d > B:
        return f'{what}: got {val!r} ({val.hex()}), exact {float(E)!r}, |diff| {float(d):.3e} > rounding bound {float(B):.3e}'
    return None


def gen_values(rng, k):
    """k finite test values: spread magnitudes, random mantissas and signs; a few specials."""
    mags = [1e-6, 1e-3, 1.0, 1e2, 1e3, 1e6, 1e9, 1e-9, 1e12, 1e-1, 1e1, 1e4, 1e-4, 1e7, 1e-12, 1e15]
    out = []
    for i in range(k):
        m = mags[i % len(mags)]
        v = rng.uniform(1.0, 10.0) * m
        if rng.random() < 0.5: v = -v
        out.append(v)
    return out


SPECIALS = [0.0, -0.0, 1.0, -1.0, 100.0, 273.15, -459.67, 32.0]


# ------------------------------------------------------------------ OSDD run

def load_osdd():
    from TotalDepth.common import units as U
    table = read_osdd()
    ous = [OU(i, k, u) for i, (k, u) in enumerate(table.items())]
    return U, ous


def impl_osdd_row(ou: OU):
    u = ou.unit
    sb = fbits(u.scale) if isinstance(u.scale, float) and ou.finite else '?'
    ob = fbits(u.offset) if isinstance(u.offset, float) and ou.finite else '?'
    h = lambda s: (str(s).encode('utf-8').hex() or '-')
    return f'{h(ou.key)} {h(u.code)} {h(u.dimension)} {qstr(u.scale)} {qstr(u.offset)} {sb} {ob}'


def run_osdd(ctx, boost=False):
    import numpy as np
    U, ous = load_osdd()
    rng = ctx.rng
    model_ok = getattr(ctx, 'model_available', True)
    lean = (lambda lines: ctx.lean(lines)) if model_ok else (lambda lines: [None] * len(lines))

    def corr(stream, case, impl, model):
        if model is not None:
            ctx.corr(stream, case, impl, canon_model(model))

    # ---- the table itself: generated Lean rows == what the implementation loads
    rep = lean(['ocount'] + [f'orow {i}' for i in range(len(ous))])
    corr('osdd_table', {'op': 'ocount'}, f'{len(ous)} {len(ous)}', rep[0])
    for ou, m in zip(ous, rep[1:]):
        corr('osdd_table', {'op': 'orow', 'i': ou.idx, 'key': ou.key}, impl_osdd_row(ou), m)
    dims = {}
    for ou in ous:
        dims.setdefault(ou.unit.dimension, []).append(ou)
    ctx.extra['osdd_units'] = len(ous)
    ctx.extra['osdd_dimensions'] = len(dims)
    ctx.extra['osdd_units_with_offset'] = sum(1 for o in ous if o.has_off)
    # the code's key/code agreement, and a zero/non-finite scale, are properties of the table as loaded
    for ou in ous:
        ctx.count('oracle_cases')
        if not ou.finite or ou.s == 0:
            ctx.fail({'op': 'osdd_scale', 'key': ou.key}, f'unit {ou.key!r} has scale {ou.unit.scale!r} / offset {ou.unit.offset!r}: '
                     'no invertible conversion exists for it')

    K = ctx.n(7, 21) * (2 if boost else 1)
    KRT = ctx.n(3, 8)
    npairs = 0
    lines, cases = [], []          # driver requests and what to compare them with
    arr_jobs = []
    n_fail_before = len(ctx.failures)
    for dim, members in dims.items():
        vals = gen_values(rng, K)
        if ctx.tier == 'thorough' or boost:
            vals += SPECIALS
        vF = [Fraction(v) for v in vals]
        vb = [fbits(v) for v in vals]
        for a in members:
            for b in members:
                npairs += 1
                ua, ub = a.unit, b.unit
                off = a.has_off or b.has_off
                okpair = a.finite and b.finite and b.s != 0
                if okpair:
                    ratio_ab = a.s / b.s
                results, passed = [], []
                for k, v in enumerate(vals):
                    res = osdd_call(U, U.convert, v, ua, ub)
                    results.append(res)
                    lines.append(f'oconv {a.idx} {b.idx} {vb[k]}')
                    cases.append(('osdd_convert', a, b, v, res))
                    ctx.count('oracle_cases')
                    # inlined fast path of check_scalar / osdd_exact
                    bad = None
                    if res[0] != 'ok' or not okpair or not is_num(res[1]):
                        bad = check_scalar(res, osdd_exact(vF[k], a, b), 'convert')
                    else:
                        if off:
                            A = (vF[k] - a.o) * ratio_ab
                            E = A + b.o
                            B = err_bound(A, E, 3, True)
                        else:
                            E = vF[k] * ratio_ab
                            B = abs(E) * _G[2] + 4 * ETA
                        if abs(Fraction(res[1]) - E) > B:
                            bad = check_scalar(res, osdd_exact(vF[k], a, b), 'convert')
                    passed.append(bad is None)
                    if bad:
                        ctx.fail({'op': 'osdd_convert', 'from': a.key, 'to': b.key, 'v': v.hex()}, bad)
                    elif a is not b and v != 0.0:
                        ctx.nontriv(('osdd', a.key, b.key))
                # round trip on the first KRT values (there and back, on the implementation's own intermediate)
                for k in range(min(KRT, len(vals))):
                    if results[k][0] == 'ok' and is_num(results[k][1]):
                        ctx.count('oracle_cases')
                        bad = check_composite(U, vals[k], a, b, a, results[k][1])
                        if bad:
                            ctx.fail({'op': 'osdd_roundtrip', 'from': a.key, 'to': b.key, 'v': vals[k].hex()}, bad)
                arr_jobs.append((a, b, vals, results, passed))
    ctx.extra['osdd_ordered_pairs_same_dimension'] = npairs
    # scalar correspondence (bit for bit with the Float instance of the model)
    rep = lean(lines)
    for (stream, a, b, v, res), m in zip(cases, rep):
        corr_num(ctx, stream, {'op': stream, 'from': a.key, 'to': b.key, 'v': v.hex()}, canon(*res), m,
                 lambda: check_scalar(res, osdd_exact(Fraction(v), a, b), 'convert'))
    ctx.sample({'op': 'osdd_convert', 'from': cases[len(cases) // 3][1].key, 'to': cases[len(cases) // 3][2].key,
                'v': cases[len(cases) // 3][3], 'impl': canon(*cases[len(cases) // 3][4]), 'model': rep[len(cases) // 3]})
    del lines, cases, rep

    # ---- array forms (copying and in place) and convert_function, every ordered pair
    lines, meta = [], []
    for a, b, vals, results, passed in arr_jobs:
        src = np.array(vals, dtype=np.float64)
        keep = src.copy()
        case = {'op': 'osdd_array', 'from': a.key, 'to': b.key, 'vals': [v.hex() for v in vals]}
        ctx.count('oracle_cases')
        bad, out_copy, out_inp = check_arrays(U, np, a, b, vals, results, src, keep, passed)
        if bad:
            ctx.fail(case, bad)
        lines.append(f'oarr {a.idx} {b.idx} ' + ','.join(str(fbits(v)) for v in vals))
        meta.append(('osdd_array_copy', case, out_copy, (lambda bad=bad: bad)))
        lines.append(f'oinp {a.idx} {b.idx} ' + ','.join(str(fbits(v)) for v in vals))
        meta.append(('osdd_array_inplace', case, out_inp, (lambda bad=bad: bad)))
        # convert_function: made once, then applied
        kind, f = osdd_call(U, U.convert_function, a.unit, b.unit)
        ctx.count('oracle_cases')
        if kind != 'ok':
            ctx.fail({'op': 'osdd_function', 'from': a.key, 'to': b.key, 'v': vals[0].hex()},
                     f'convert_function raised {f} for two units of one dimension')
        else:
            r0 = osdd_call(U, f, vals[0])
            if canon(*r0) != canon(*results[0]):
                ctx.fail({'op': 'osdd_function', 'from': a.key, 'to': b.key, 'v': vals[0].hex()},
                         f'convert_function(a,b)(v) = {r0[1]!r} differs from convert(v,a,b) = {results[0][1]!r}')
            lines.append(f'ofun {a.idx} {b.idx} {fbits(vals[0])}')
            meta.append(('osdd_function', {'op': 'osdd_function', 'from': a.key, 'to': b.key, 'v': vals[0].hex()}, canon(*r0),
                         (lambda r0=r0, v=vals[0], a=a, b=b: check_scalar(r0, osdd_exact(Fraction(v), a, b), 'convert_function'))))
    rep = lean(lines)
    for (stream, case, impl, recheck), m in zip(meta, rep):
        corr_num(ctx, stream, case, impl, m, recheck)
    del lines, meta, rep, arr_jobs

    # ---- exact model (Rat instance, the one the theorems are about) == the Fraction reference of this oracle
    if model_ok:
        lines, want = [], []
        dl = [m for m in dims.values()]
        for _ in range(ctx.n(20000, 200000)):
            members = rng.choice(dl)
            a, b = rng.choice(members), rng.choice(members)
            v = rng.choice(gen_values(rng, 1) + SPECIALS)
            ex = osdd_exact(Fraction(v), a, b)
            if ex is None: continue
            lines.append(f'oq {a.idx} {b.idx} {qstr(v)}')
            want.append(({'op': 'osdd_exact', 'from': a.key, 'to': b.key, 'v': v.hex()}, f'ok {ex[0].numerator}/{ex[0].denominator}'))
        for (case, w), m in zip(want, ctx.lean(lines)):
            ctx.corr('osdd_rat_model_vs_fraction_reference', case, w, m)

    # ---- triples: via a third unit == directly
    budget = ctx.n(30000, 300000) * (2 if boost else 1)
    tot3 = sum(len(m) ** 3 for m in dims.values())
    for dim, members in dims.items():
        n = len(members)
        if n < 2: continue
        want = max(4, min(n ** 3, budget * n ** 3 // tot3 + 1))
        for _ in range(want):
            a, b, c = rng.choice(members), rng.choice(members), rng.choice(members)
            v = gen_values(rng, 1)[0] * rng.choice([1e-3, 1.0, 1e3])
            ctx.count('oracle_cases')
            bad = check_triple(U, v, a, b, c)
            if bad:
                ctx.fail({'op': 'osdd_triple', 'from': a.key, 'via': b.key, 'to': c.key, 'v': v.hex()}, bad)
            elif len({a.idx, b.idx, c.idx}) == 3:
                ctx.nontriv(('osdd3', a.key, b.key, c.key))

    # ---- refusal: different dimensions
    refuse = []
    dkeys = list(dims)
    for d1 in dkeys:
        for d2 in dkeys:
            if d1 != d2:
                refuse.append((rng.choice(dims[d1]), rng.choice(dims[d2])))
    if ctx.tier == 'thorough' or boost:
        allcross = [(a, b) for a in ous for b in ous if a.unit.dimension != b.unit.dimension]
        ctx.extra['osdd_refusal_pairs'] = f'all {len(allcross)} ordered pairs of different dimension'
        sampled = set(rng.sample(range(len(allcross)), min(len(allcross), 200000)))
    else:
        allcross = []
        for _ in range(20000):
            a, b = rng.choice(ous), rng.choice(ous)
            if a.unit.dimension != b.unit.dimension:
                allcross.append((a, b))
        ctx.extra['osdd_refusal_pairs'] = (f'one random representative for each of the {len(refuse)} ordered pairs of dimensions '
                                           f'+ {len(allcross)} random cross pairs')
        sampled = set(range(len(allcross)))
    lines, meta = [], []
    for k, (a, b) in enumerate(refuse + allcross):
        v = rng.choice(SPECIALS) if k % 3 else gen_values(rng, 1)[0]
        case = {'op': 'osdd_refuse', 'from': a.key, 'to': b.key, 'v': v.hex()}
        ctx.count('oracle_cases')
        bad, r1, r2, r3, r4, after = check_refusal(U, np, v, a, b)
        if bad:
            ctx.fail(case, bad)
        else:
            ctx.nontriv(('osdd_refuse', a.unit.dimension, b.unit.dimension))
        if k < len(refuse) or (k - len(refuse)) in sampled:
            lines.append(f'oconv {a.idx} {b.idx} {fbits(v)}'); meta.append(('osdd_refuse', case, canon(*r1)))
            lines.append(f'ofun {a.idx} {b.idx} {fbits(v)}'); meta.append(('osdd_refuse_function', case, canon(r2[0], r2[1]) if r2[0] != 'ok' else 'ok function'))
            arr = f'{fbits(v)},{fbits(1.0)}'
            lines.append(f'oarr {a.idx} {b.idx} {arr}'); meta.append(('osdd_refuse_array_copy', case, canon(r3[0], r3[1]) if r3[0] != 'ok' else 'ok array'))
            lines.append(f'oinp {a.idx} {b.idx} {arr}')
            meta.append(('osdd_refuse_array_inplace', case, (canon(r4[0], r4[1]) if r4[0] != 'ok' else 'ok array') + ' after ' + after))
    rep = lean(lines)
    for (stream, case, impl), m in zip(meta, rep):
        corr(stream, case, impl, m)
    return len(ctx.failures) - n_fail_before


def check_refusal(U, np, v, a, b):
    """Two units of different dimension: every entry point (scalar, function, copying array, in-place array) must raise a
    subclass of ExceptionUnits, and the in-place form must leave the array as it was.
    Returns (failure text or None, the four outcomes, canonical array content after the in-place call)."""
    r1 = osdd_call(U, U.convert, v, a.unit, b.unit)
    r2 = osdd_call(U, U.convert_function, a.unit, b.unit)
    src = np.array([v, 1.0], dtype=np.float64)
    with np.errstate(all='ignore'):
        r3 = osdd_call(U, U.convert_array, src, a.unit, b.unit)
        work = src.copy()
        r4 = osdd_call(U, U.convert_array_inplace, work, a.unit, b.unit)
    after = ','.join(str(fbits(float(x))) for x in work)
    untouched = after == ','.join(str(fbits(float(x))) for x in src)
    bad = None
    short = lambda r: f'{r[0]} {str(r[1])[:40]}'
    if any(r[0] != 'units' for r in (r1, r2, r3, r4)):
        bad = (f'units of dimensions {a.unit.dimension!r} / {b.unit.dimension!r}: convert -> {short(r1)}, convert_function -> {short(r2)}, '
               f'convert_array -> {short(r3)}, convert_array_inplace -> {short(r4)}; expected a subclass of ExceptionUnits from each')
    elif not untouched:
        bad = 'convert_array_inplace refused the conversion but had already modified the array'
    return bad, r1, r2, r3, r4, after


def check_composite(U, v, a, b, c, w):
    """convert(w, b, c) with w = convert(v, a, b) as computed by the implementation, against the exact a -> c result."""
    ex_ab = osdd_exact(Fraction(v), a, b)
    ex_ac = osdd_exact(Fraction(v), a, c)
    ex_bc = osdd_exact(Fraction(w), b, c)
    res = osdd_call(U, U.convert, w, b.unit, c.unit)
    what = f'convert(convert(v,{a.key!r},{b.key!r}),{b.key!r},{c.key!r})'
    if res[0] != 'ok':
        return f'{what}: second step raised {res[1]}'
    if ex_ab is None or ex_ac is None or ex_bc is None:
        return f'{what}: returned {res[1]!r} although a scale is zero / non-finite'
    if not is_num(res[1]):
        return f'{what}: returned {res[1]!r}'
    B1 = err_bound(ex_ab[1], ex_ab[0], ex_ab[2], ex_ab[3])
    B2 = err_bound(ex_bc[1], ex_bc[0], ex_bc[2], ex_bc[3])
    B = B2 + B1 * abs(b.s / c.s)
    d = abs(Fraction(res[1]) - ex_ac[0])
    if d > B:
        return (f'{what} = {res[1]!r}, exact direct value {float(ex_ac[0])!r}: |diff| {float(d):.3e} > propagated rounding bound {float(B):.3e}')
    return None


def check_triple(U, v, a, b, c):
    r1 = osdd_call(U, U.convert, v, a.unit, b.unit)
    bad = check_scalar(r1, osdd_exact(Fraction(v), a, b), f'convert({a.key!r}->{b.key!r})')
    if bad: return bad
    r3 = osdd_call(U, U.convert, v, a.unit, c.unit)
    bad = check_scalar(r3, osdd_exact(Fraction(v), a, c), f'convert({a.key!r}->{c.key!r})')
    if bad: return bad
    return check_composite(U, v, a, b, c, r1[1])


def check_arrays(U, np, a, b, vals, scalar_results, src, keep, scalar_ok=None):
    """convert_array / convert_array_inplace on a float64 array against the exact values and the scalar results.
    Returns (failure text or None, canonical copy result, canonical in-place result)."""
    with np.errstate(all='ignore'):
        rc = osdd_call(U, U.convert_array, src, a.unit, b.unit)
    canon_copy = canon_inp = None
    bad = None
    if rc[0] != 'ok':
        bad = f'convert_array raised {rc[1]}'
        canon_copy = canon(*rc)
    else:
        out = rc[1]
        if not isinstance(out, np.ndarray) or out.shape != src.shape or out.dtype != np.float64:
            bad = f'convert_array returned {type(out).__name__} {getattr(out, "shape", None)} {getattr(out, "dtype", None)}'
            canon_copy = 'ok ?'
        else:
            canon_copy = 'ok ' + ','.join(str(fbits(float(x))) for x in out)
            if not np.array_equal(src, keep) and not bad:
                bad = 'convert_array modified its argument'
    work = keep.copy()
    with np.errstate(all='ignore'):
        ri = osdd_call(U, U.convert_array_inplace, work, a.unit, b.unit)
    after = ','.join(str(fbits(float(x))) for x in work) or '-'
    if ri[0] != 'ok':
        bad = bad or f'convert_array_inplace raised {ri[1]}'
        canon_inp = canon(*ri) + ' after ' + after
    else:
        canon_inp = f'ok {after} after {after}'
        if ri[1] is not None and not bad:
            bad = f'convert_array_inplace returned {type(ri[1]).__name__}, documented None'
    if bad:
        return bad, canon_copy, canon_inp
    out = rc[1]
    off = a.has_off or b.has_off
    for k, v in enumerate(vals):
        sr = scalar_results[k]
        if scalar_ok and scalar_ok[k] and sr[0] == 'ok' and is_num(sr[1]):
            sb = fbits(sr[1])
            if fbits(float(out[k])) == sb and fbits(float(work[k])) == sb:
                continue            # identical to a scalar result that is itself within the bound
        ex = osdd_exact(Fraction(v), a, b)
        for name, got in (('convert_array', float(out[k])), ('convert_array_inplace', float(work[k]))):
            t = check_scalar(('ok', got), ex, f'{name}[{k}] (v={v!r})')
            if t: return t, canon_copy, canon_inp
        if fbits(float(out[k])) != fbits(float(work[k])):
            return (f'in place {float(work[k])!r} differs from copying {float(out[k])!r} at [{k}] (same operations, must be identical)',
                    canon_copy, canon_inp)
        if sr[0] == 'ok' and is_num(sr[1]):
            if off and fbits(sr[1]) != fbits(float(out[k])):
                return (f'offset branch: array element {float(out[k])!r} differs from scalar convert {sr[1]!r} at v={v!r} '
                        '(same operations, must be identical)', canon_copy, canon_inp)
            if ex is not None:
                B = 2 * err_bound(ex[1], ex[0], ex[2], ex[3])
                if abs(Fraction(float(out[k])) - Fraction(sr[1])) > B:
                    return f'array element {float(out[k])!r} vs scalar {sr[1]!r} at v={v!r}: beyond twice the rounding bound', canon_copy, canon_inp
    return None, canon_copy, canon_inp


# ------------------------------------------------------------------ LIS run

class LU:
    """One LIS unit as the imported module holds it (UnitConvert.mult / .offs), with exact values."""
    __slots__ = ('idx', 'cat', 'name', 'mult', 'offs', 'm', 'o', 'finite')

    def __init__(self, idx, cat, name, mult, offs):
        self.idx, self.cat, self.name, self.mult, self.offs = idx, cat, name, mult, offs
        self.finite = ratio(mult)[1] != 0 and (offs is None or ratio(offs)[1] != 0)
        self.m = Fraction(mult) if self.finite else None
        self.o = (Fraction(offs) if offs is not None else None) if self.finite else None


def load_lis():
    from TotalDepth.LIS.core import Units as L
    lus = []
    for c in L.unitCategories():
        ucc = L.retUnitConvertCategory(c)
        for name in ucc.units():
            uc = ucc.unitConvertor(name)
            lus.append(LU(len(lus), c, name, uc.mult, uc.offs))
    return L, lus


def bhex(b) -> str:
    return (b.hex() or '-') if isinstance(b, bytes) else '?'


def impl_lis_row(lu: LU):
    fb = lambda x: fbits(float(x)) if ratio(x)[1] else '?'
    off = f'{qstr(lu.offs)} {fb(lu.offs)}' if lu.offs is not None else 'N N'
    return f'{bhex(lu.cat)} {bhex(lu.name)} {qstr(lu.mult)} {fb(lu.mult)} {off}'


def lis_exact(vF, x: LU, y: LU):
    if not (x.finite and y.finite) or y.m == 0:
        return None
    t = vF - x.o if x.o is not None else vF
    A = t * x.m / y.m
    n_pre = 3 if x.o is not None else 2
    if y.o is not None:
        return A + y.o, A, n_pre, True
    return A, A, n_pre, False


def lis_composite(L, v, x, y, z, w):
    ex_xy, ex_xz, ex_yz = lis_exact(Fraction(v), x, y), lis_exact(Fraction(v), x, z), lis_exact(Fraction(w), y, z)
    res = osdd_call(L, L.convert, w, y.name, z.name)
    what = f'convert(convert(v,{x.name!r},{y.name!r}),{y.name!r},{z.name!r})'
    if res[0] != 'ok':
        return f'{what}: second step raised {res[1]}'
    if ex_xy is None or ex_xz is None or ex_yz is None:
        return f'{what}: returned {res[1]!r} although a multiplier is zero / non-finite'
    if not is_num(res[1]):
        return f'{what}: returned {res[1]!r}'
    B = err_bound(ex_yz[1], ex_yz[0], ex_yz[2], ex_yz[3]) + err_bound(ex_xy[1], ex_xy[0], ex_xy[2], ex_xy[3]) * abs(y.m / z.m)
    d = abs(Fraction(res[1]) - ex_xz[0])
    if d > B:
        return f'{what} = {res[1]!r}, exact direct value {float(ex_xz[0])!r}: |diff| {float(d):.3e} > propagated rounding bound {float(B):.3e}'
    return None


JUNK_UNITS = [b'XXXX', b'feet', b'FEE ', b'FEET ', b' FEET', b'FT', b'M', b'', b'    X', b'\x00\x00\x00\x00', b'DEG', b'DEGX', b'KELV',
              b'M  ', b'm   ', b'LENG', b'TIME', b'TEMP', b'\xff\xfe\xfd\xfc', b'GAPJ', b'0000', b'MS/N', b'?   ']


def run_lis(ctx, boost=False):
    L, lus = load_lis()
    from TotalDepth.LIS.core import EngVal as EV
    rng = ctx.rng
    model_ok = getattr(ctx, 'model_available', True)
    lean = (lambda lines: ctx.lean(lines)) if model_ok else (lambda lines: [None] * len(lines))

    def corr(stream, case, impl, model):
        if model is not None:
            ctx.corr(stream, case, impl, canon_model(model))

    cats = {}
    for lu in lus:
        cats.setdefault(lu.cat, []).append(lu)
    known = {lu.name for lu in lus}
    ctx.extra['lis_units'] = len(lus)
    ctx.extra['lis_categories'] = len(cats)
    rep = lean(['lcount'] + [f'lrow {i}' for i in range(len(lus))])
    corr('lis_table', {'op': 'lcount'}, f'{len(lus)} {len(lus)} {len(cats)}', rep[0])
    for lu, m in zip(lus, rep[1:]):
        corr('lis_table', {'op': 'lrow', 'i': lu.idx, 'name': bhex(lu.name)}, impl_lis_row(lu), m)
    for lu in lus:
        ctx.count('oracle_cases')
        if not lu.finite or lu.m == 0:
            ctx.fail({'op': 'lis_mult', 'name': bhex(lu.name)}, f'LIS unit {lu.name!r} has multiplier {lu.mult!r} / offset {lu.offs!r}: '
                     'no invertible conversion exists for it')
    # ---- same category: every ordered pair, round trips, every triple
    K = ctx.n(9, 40) * (2 if boost else 1)
    lines, meta, qlines, qmeta = [], [], [], []
    for cat, members in cats.items():
        vals = gen_values(rng, K) + SPECIALS
        for x in members:
            for y in members:
                for v in vals:
                    case = {'op': 'lis_convert', 'from': bhex(x.name), 'to': bhex(y.name), 'v': v.hex()}
                    res = osdd_call(L, L.convert, v, x.name, y.name)
                    ctx.count('oracle_cases')
                    bad = check_scalar(res, lis_exact(Fraction(v), x, y), 'LIS convert')
                    if bad:
                        ctx.fail(case, bad)
                    else:
                        if x is not y and v != 0.0: ctx.nontriv(('lis', x.name, y.name))
                        ctx.count('oracle_cases')
                        bad_rt = lis_composite(L, v, x, y, x, res[1])
                        if bad_rt:
                            ctx.fail({'op': 'lis_roundtrip', 'from': bhex(x.name), 'to': bhex(y.name), 'v': v.hex()}, bad_rt)
                    lines.append(f'lconv {bhex(x.name)} {bhex(y.name)} {fbits(v)}')
                    meta.append(('lis_convert', case, canon(*res), (lambda bad=bad: bad)))
                v = vals[0]
                ex = lis_exact(Fraction(v), x, y)
                if ex is not None:
                    qlines.append(f'lq {bhex(x.name)} {bhex(y.name)} {qstr(v)}')
                    qmeta.append(({'op': 'lis_exact', 'from': bhex(x.name), 'to': bhex(y.name), 'v': v.hex()}, f'ok {ex[0].numerator}/{ex[0].denominator}'))
                # val is None -> 0. (as coded; correspondence only)
                rn = osdd_call(L, L.convert, None, x.name, y.name)
                lines.append(f'lconv {bhex(x.name)} {bhex(y.name)} N'); meta.append(('lis_convert_none', {'op': 'lis_none', 'from': bhex(x.name), 'to': bhex(y.name)}, canon(*rn)))
        tv = vals[:ctx.n(2, 6)]
        for x in members:
            for y in members:
                for z in members:
                    for v in tv:
                        ctx.count('oracle_cases')
                        r1 = osdd_call(L, L.convert, v, x.name, y.name)
                        if r1[0] != 'ok' or not is_num(r1[1]):
                            continue        # already reported by the pair loop
                        bad = lis_composite(L, v, x, y, z, r1[1])
                        if bad:
                            ctx.fail({'op': 'lis_triple', 'from': bhex(x.name), 'via': bhex(y.name), 'to': bhex(z.name), 'v': v.hex()}, bad)
                        elif len({x.idx, y.idx, z.idx}) == 3:
                            ctx.nontriv(('lis3', x.name, y.name, z.name))
    # ---- refusals: every ordered pair of different categories; unknown units
    refusals = [(x.name, y.name, 'category') for x in lus for y in lus if x.cat != y.cat]
    junk = [j for j in JUNK_UNITS if j not in known]
    for _ in range(ctx.n(60, 600)):
        j = bytes(rng.choice(b'ABCDEFGHIJKLMNOPQRSTUVWXYZ0123456789/-. ') for _ in range(rng.choice([4, 4, 4, 3, 5])))
        if j not in known: junk.append(j)
    some_known = [rng.choice(lus).name for _ in range(ctx.n(12, 60))]
    for j in junk:
        for kname in some_known[:ctx.n(4, 20)]:
            refusals.append((j, kname, 'unknown')); refusals.append((kname, j, 'unknown'))
        refusals.append((j, rng.choice(junk), 'unknown')); refusals.append((j, j, 'unknown'))
    for u1, u2, why in refusals:
        v = rng.choice(SPECIALS + gen_values(rng, 2))
        case = {'op': 'lis_refuse', 'from': bhex(u1), 'to': bhex(u2), 'v': v.hex(), 'why': why}
        res = osdd_call(L, L.convert, v, u1, u2)
        ctx.count('oracle_cases')
        if res[0] != 'units':
            ctx.fail(case, f'LIS convert({v!r}, {u1!r}, {u2!r}) ({why} mismatch): {res[0]} {res[1]!r}; expected a subclass of LIS ExceptionUnits')
        else:
            ctx.nontriv(('lis_refuse', u1, u2))
        lines.append(f'lconv {bhex(u1)} {bhex(u2)} {fbits(v)}'); meta.append(('lis_refuse', case, canon(*res)))
    # str instead of bytes is not a key of the table either (oracle only: the model's names are byte strings)
    for s in ('FEET', 'M   ', 'DEGC'):
        for other in (b'FEET', b'DEGC'):
            for u1, u2 in ((s, other), (other, s)):
                ctx.count('oracle_cases')
                res = osdd_call(L, L.convert, 1.0, u1, u2)
                if res[0] != 'units':
                    enc = lambda u: {'str': u} if isinstance(u, str) else {'bytes': u.hex()}
                    ctx.fail({'op': 'lis_refuse_str', 'from': enc(u1), 'to': enc(u2)}, f'LIS convert(1.0, {u1!r}, {u2!r}): {res[0]} {res[1]!r}; expected a units error')
    # category()
    for name in [lu.name for lu in lus] + junk:
        try:
            r = 'ok ' + bhex(L.category(name))
        except L.ExceptionUnits:
            r = 'err units'
        lines.append(f'lcat {bhex(name)}'); meta.append(('lis_category', {'op': 'lis_category', 'name': bhex(name)}, r))
    # ---- EngVal entry points: getInUnits / convert / newEngValInUnits / arithmetic, against Units.convert
    ev_cases = []
    for cat, members in cats.items():
        for x in members:
            for y in members:
                ev_cases.append((x.name, y.name))
    ev_cases += [(a, b) for a, b, _ in rng.sample(refusals, min(len(refusals), ctx.n(3000, 30000)))]
    for u1, u2 in ev_cases:
        v = rng.choice(SPECIALS[2:] + gen_values(rng, 3))
        w = rng.choice(gen_values(rng, 2))
        case = {'op': 'engval', 'from': bhex(u1), 'to': bhex(u2), 'v': v.hex(), 'w': w.hex()}
        ctx.count('oracle_cases')
        bad, outs = check_engval(L, EV, u1, u2, v, w, must_refuse(lus, u1, u2))
        if bad:
            ctx.fail(case, bad)
        for op, out in outs.items():
            lines.append(f'{op} {bhex(u1)} {bhex(u2)} {fbits(v)}'); meta.append(('engval_' + op, case, out, (lambda bad=bad: bad)))
    rep = lean(lines)
    for item, m in zip(meta, rep):
        if len(item) == 4:
            corr_num(ctx, item[0], item[1], item[2], m, item[3])
        else:
            corr(item[0], item[1], item[2], m)
    if model_ok:
        for (case, w), m in zip(qmeta, ctx.lean(qlines)):
            ctx.corr('lis_rat_model_vs_fraction_reference', case, w, m)
    ctx.sample({'op': 'lis_convert', 'request': lines[5], 'impl': meta[5][2], 'model': rep[5]})
    ctx.extra['lis_refusal_pairs'] = f'all {sum(1 for r in refusals if r[2] == "category")} ordered pairs of different category + {sum(1 for r in refusals if r[2] == "unknown")} with an unknown unit'
    ctx.note('informational: EngVal.getInUnits/convert/newEngValInUnits return the value untouched when the requested units equal '
             'the current ones, before any table lookup - also for a unit the table does not know (no conversion is performed)')
    ctx.note('informational: LIS Units.convert refuses a category mismatch with ExceptionUnitsNoUnitInCategory (the documented '
             'ExceptionUnitsMissmatchedCategory is constructed without raise); both are ExceptionUnits, accepted (DESIGN section 5)')


def must_refuse(lus, u1, u2):
    """different names, and not two known units of one category"""
    cat = {l.name: l.cat for l in lus}
    return u1 != u2 and (u1 not in cat or u2 not in cat or cat[u1] != cat[u2])


def check_engval(L, EV, u1, u2, v, w, refuse=False):
    """EngVal conversion entry points against Units.convert on the same arguments (bit for bit / same refusal)."""
    def ev_canon(kind, val):
        if kind == 'ok':
            return f'ok {fbits(val.value)} {bhex(val.uom)}' if isinstance(val.value, float) else f'ok ?{val.value!r}'
        return canon(kind, val)
    ref = ('ok', v) if u1 == u2 else osdd_call(L, L.convert, v, u1, u2)
    outs = {}
    r_get = osdd_call(L, EV.EngVal(v, u1).getInUnits, u2)
    outs['eget'] = canon(*r_get)
    e = EV.EngVal(v, u1)
    r_c = osdd_call(L, e.convert, u2)
    outs['econv'] = ev_canon('ok', e) if r_c[0] == 'ok' else canon(*r_c)
    r_n = osdd_call(L, EV.EngVal(v, u1).newEngValInUnits, u2)
    outs['enew'] = ev_canon(*r_n)
    want = canon(*ref)
    want_ev = f'{want} {bhex(u2)}' if ref[0] == 'ok' else want
    if refuse and (r_get[0] != 'units' or r_c[0] != 'units' or r_n[0] != 'units'):
        return (f'EngVal({v!r},{u1!r}) asked for {u2!r} (unknown unit or other category): getInUnits -> {outs["eget"]}, convert -> '
                f'{outs["econv"]}, newEngValInUnits -> {outs["enew"]}; expected units errors'), outs
    if outs['eget'] != want:
        return f'EngVal({v!r},{u1!r}).getInUnits({u2!r}) -> {outs["eget"]}, Units.convert -> {want}', outs
    if outs['econv'] != want_ev:
        return f'EngVal({v!r},{u1!r}).convert({u2!r}) -> {outs["econv"]}, expected {want_ev}', outs
    if outs['enew'] != want_ev:
        return f'EngVal({v!r},{u1!r}).newEngValInUnits({u2!r}) -> {outs["enew"]}, expected {want_ev}', outs
    if ref[0] != 'ok' and r_c[0] != 'ok' and (e.value != v or e.uom != u1):
        return f'EngVal.convert changed the object although it was refused: {e.value!r} {e.uom!r}', outs
    # arithmetic: the right operand is converted into the units of the left one
    back = ('ok', v) if u1 == u2 else osdd_call(L, L.convert, v, u1, u2)      # value of EngVal(v,u1) in units u2
    import operator
    for name, op in (('+', operator.add), ('-', operator.sub), ('/', operator.truediv), ('<', operator.lt), ('>=', operator.ge)):
        if name == '/' and (back[0] != 'ok' or back[1] == 0.0 or u1 == b'    ' or u2 == b'    '):
            continue
        r = osdd_call(L, op, EV.EngVal(w, u2), EV.EngVal(v, u1))
        if back[0] != 'ok':
            if r[0] != 'units':
                return f'EngVal({w!r},{u2!r}) {name} EngVal({v!r},{u1!r}) -> {r[0]} {r[1]!r}; expected a units error', outs
            continue
        exp = op(w, back[1])
        if r[0] != 'ok':
            return f'EngVal({w!r},{u2!r}) {name} EngVal({v!r},{u1!r}) raised {r[1]}', outs
        got = r[1].value if isinstance(r[1], EV.EngVal) else r[1]
        same = (fbits(got) == fbits(exp)) if isinstance(exp, float) and isinstance(got, float) else (got == exp and type(got) is type(exp))
        if not same:
            return f'EngVal({w!r},{u2!r}) {name} EngVal({v!r},{u1!r}) = {got!r}, expected {exp!r} (= {w!r} {name} convert(v))', outs
    return None, outs


# ------------------------------------------------------------------ entry points

def _finish(ctx):
    n = ctx.stats.get('bitwise_differences_within_rounding_bound', 0)
    if n:
        ctx.note(f'{n} result(s) of the implementation differ in their bits from the binary64 instance of the model but lie within the '
                 'rounding bound of the exact value: the code evaluates the same map with different rounding (allowed by the property)')


def run(ctx):
    ctx.extra['rounding_bound'] = BOUND_TEXT
    ctx.extra['claim_split'] = ('proof: exact laws over Q (identity, round trip, transitivity, dimension/category/unknown-unit refusal, array = map) '
                                'for all values and all entries of the regenerated tables; partial: "to within floating-point rounding" is '
                                'exercised with the stated bound, not proved')
    run_osdd(ctx)
    run_lis(ctx)
    _finish(ctx)


def search(ctx):
    """More of the same oracle (twice the values, every cross-dimension pair) when a proof / the correspondence broke."""
    run_osdd(ctx, boost=True)
    run_lis(ctx, boost=True)
    _finish(ctx)


def replay(ctx, rec):
    import numpy as np
    case = rec['case']
    op = case.get('op', '')
    fx = lambda h: float.fromhex(h)
    if op.startswith('osdd'):
        U, ous = load_osdd()
        by = {o.key: o for o in ous}
        need = [case[k] for k in ('key', 'from', 'via', 'to') if k in case]
        if any(k not in by for k in need):
            return True, f'unit(s) {need} no longer all in the table'
        g = lambda k: by[case[k]]
        if op == 'osdd_scale':
            o = g('key')
            return (o.finite and o.s != 0), f'scale {o.unit.scale!r} offset {o.unit.offset!r}'
        if op == 'osdd_convert':
            v = fx(case['v']); a, b = g('from'), g('to')
            res = osdd_call(U, U.convert, v, a.unit, b.unit)
            bad = check_scalar(res, osdd_exact(Fraction(v), a, b), 'convert')
            return bad is None, bad or f'convert -> {res[1]!r} within the bound'
        if op == 'osdd_roundtrip':
            v = fx(case['v']); a, b = g('from'), g('to')
            res = osdd_call(U, U.convert, v, a.unit, b.unit)
            bad = check_scalar(res, osdd_exact(Fraction(v), a, b), 'convert') or check_composite(U, v, a, b, a, res[1])
            return bad is None, bad or 'round trip within the bound'
        if op == 'osdd_triple':
            bad = check_triple(U, fx(case['v']), g('from'), g('via'), g('to'))
            return bad is None, bad or 'via third unit == direct within the bound'
        if op == 'osdd_array':
            vals = [fx(h) for h in case['vals']]; a, b = g('from'), g('to')
            results = [osdd_call(U, U.convert, v, a.unit, b.unit) for v in vals]
            src = np.array(vals, dtype=np.float64)
            bad, _, _ = check_arrays(U, np, a, b, vals, results, src, src.copy())
            return bad is None, bad or 'array forms agree with the scalar form'
        if op == 'osdd_function':
            v = fx(case['v']); a, b = g('from'), g('to')
            kind, f = osdd_call(U, U.convert_function, a.unit, b.unit)
            if kind != 'ok': return False, f'convert_function raised {f}'
            ok = canon(*osdd_call(U, f, v)) == canon(*osdd_call(U, U.convert, v, a.unit, b.unit))
            return ok, 'convert_function(a,b)(v) vs convert(v,a,b)'
        if op == 'osdd_refuse':
            v = fx(case['v']); a, b = g('from'), g('to')
            if a.unit.dimension == b.unit.dimension:
                return True, 'the two units now have one dimension'
            bad, r1, r2, r3, r4, _ = check_refusal(U, np, v, a, b)
            return bad is None, bad or f'convert, convert_function, convert_array, convert_array_inplace -> {r1[0]} {r1[1]!r}, array untouched'
    if op.startswith('lis') or op == 'engval':
        L, lus = load_lis()
        from TotalDepth.LIS.core import EngVal as EV
        by = {bhex(l.name): l for l in lus}
        if op == 'lis_mult':
            l = by.get(case['name'])
            return (l is None or (l.finite and l.m != 0)), f'multiplier {getattr(l, "mult", None)!r}'
        if op == 'lis_refuse_str':
            dec = lambda d: d['str'] if 'str' in d else bytes.fromhex(d['bytes'])
            res = osdd_call(L, L.convert, 1.0, dec(case['from']), dec(case['to']))
            return res[0] == 'units', f'convert -> {res[0]} {res[1]!r}'
        un = lambda h: b'' if h == '-' else bytes.fromhex(h)
        if op in ('lis_refuse', 'engval'):
            u1, u2, v = un(case['from']), un(case['to']), fx(case['v'])
            if op == 'engval':
                bad, _ = check_engval(L, EV, u1, u2, v, fx(case.get('w', '0x1.8p+0')), must_refuse(lus, u1, u2))
                return bad is None, bad or 'EngVal entry points agree with Units.convert'
            k1, k2 = by.get(case['from']), by.get(case['to'])
            if k1 is not None and k2 is not None and k1.cat == k2.cat:
                return True, 'the two units are now in one category'
            res = osdd_call(L, L.convert, v, u1, u2)
            return res[0] == 'units', f'convert -> {res[0]} {res[1]!r}'
        need = [case[k] for k in ('from', 'via', 'to') if k in case]
        if any(k not in by for k in need):
            return True, f'unit(s) {need} no longer all in the table'
        v = fx(case['v']); x, y = by[case['from']], by[case['to']]
        if op == 'lis_convert':
            res = osdd_call(L, L.convert, v, x.name, y.name)
            bad = check_scalar(res, lis_exact(Fraction(v), x, y), 'LIS convert')
            return bad is None, bad or f'convert -> {res[1]!r} within the bound'
        if op in ('lis_roundtrip', 'lis_triple'):
            mid = by[case['via']] if op == 'lis_triple' else y
            end = y if op == 'lis_triple' else x
            res = osdd_call(L, L.convert, v, x.name, mid.name)
            bad = check_scalar(res, lis_exact(Fraction(v), x, mid), 'LIS convert') or lis_composite(L, v, x, mid, end, res[1])
            return bad is None, bad or 'within the bound'
    return True, 'nothing to replay (no concrete failing input was recorded)'
