"""C17 — Unit conversion is consistent: invertible, transitive, dimension-checked
(TotalDepth/common/units.py + data/osdd_units.json, TotalDepth/LIS/core/Units.py, LIS/core/EngVal.py)."""
import ast, math, os, struct
from fractions import Fraction

CLAIM = {
 'text': ('Proof for the exact laws, partial for the rounding clause. Lean 4 theorems over Q, for ALL values and ALL entries of the '
          'tables as they are in the repository now (osdd_units.json: 2035 units / 134 dimensions; LIS __RAW_UNIT_MAP: 186 units / 38 '
          'categories; both regenerated into Lean on every run): scale_ne_zero / lis_mult_ne_zero (kernel evaluation over the whole '
          'table), identity, roundtrip, transitive (+ osdd_* / lis_* table instances), convert_spec (the coded two-branch formula is the '
          'affine map through the base unit), dimension_checked, convert_ok_iff (a number exactly when the dimensions agree), '
          'unknown_unit_refused, category_mismatch_refused, lis_convert_ok_iff, lis_refusal_is_units_error, convertArray_eq_map, '
          'convertArrayInplace_eq_map (both with the refusal), array_elementwise, array_dimension_checked, convertArrayInplace_eq_convertArray (every number type), unknown_unit_to_itself_refused, EngVal entry points and history '
          'independence of one EngVal object (engval_history, engval_history_determined, engval_imul_then_get), '
          'convertArray_results_independent. '
          'PARTIAL: "to within floating-point rounding" is not a theorem (IEEE rounding of Float is opaque to the Lean kernel); it is '
          'exercised on every run - every ordered pair of every dimension/category at several magnitudes, round trips, triples, array '
          'forms - against exact fractions.Fraction results with a running error bound derived on paper (stated in the evidence).'),
 'note': ('Trusted: Lean kernel; the hand-written model, tied to the code on every run by a bit-for-bit comparison of its binary64 '
          'instance (same generic definition as the Rat instance the theorems are about) with the implementation on > 10^6 cases, and by '
          'comparing the generated tables with what the implementation loads; the generator harness/props/c17.py::translate; the paper '
          'derivation of the rounding bound (standard model of IEEE arithmetic, no overflow/underflow at the tested magnitudes). '
          'Not covered: float32 / integer arrays, non-finite values, values so large that binary64 overflows.'),
 'technique': 'Lean 4 proof (field algebra over Rat, decide +kernel over generated tables) + model-implementation correspondence + exact-arithmetic rounding oracle',
 'design_ref': 'DESIGN.md section 6 C17',
}
RULE = ('OSDD: every ordered pair of units of one dimension (102 825 pairs incl. a = a) x 7 (quick) / 29 (thorough) finite values of '
        'magnitudes 1e-12..1e15 with random mantissa and sign: scalar convert, convert_function, convert_array, convert_array_inplace, '
        'round trip; sampled triples per dimension; refusals (all four entry points, in-place array must stay untouched): one random pair for every ordered pair of dimensions + random cross pairs '
        '(quick) / every ordered cross-dimension pair (thorough). LIS: every ordered pair and every triple of every category, every '
        'ordered pair of different categories, unknown names (fixed list + random 3-5 byte names, str instead of bytes); EngVal '
        'getInUnits/convert/newEngValInUnits/arithmetic on all same-category pairs + sampled refusals + equal unknown units. '
        'Array layouts: 1200 (quick) / 12000 sampled pairs x 6-18 of 18 layouts (column views of 2-D frames, a[::2], a[::-1], transposes, '
        '2-D/3-D, Fortran order, 0-length, 0-d): caller\'s array afterwards = element-wise scalar conversion, base outside the view untouched. '
        'EngVal HISTORY: 250 (quick) / 2500 random histories of 12-40 operations on ONE object (getInUnits, comparisons, + - * /, in-place '
        '+= -= *= /= with reals and EngVals, convert, newEngValInUnits, .value= / .uom= assignment); after every step every observable is '
        'compared with a Fraction reference recomputed from (value, uom) and with a fresh object. HOLD: 1200 (quick) / 12000 sequences of 2-6 '
        'convert_array calls (+ convert_function, interleaved in-place calls) on arrays of one shape/dtype with mixed units, all results kept: '
        'afterwards each equals the scalar reference of its own input, no two results (or result and input) share memory or identity, writing '
        'into one changes nothing else; 1500 / 15000 sequences of EngVal-returning operations (newEngValInUnits, + - * /, reflected forms) with '
        'the results kept, mutated one by one, the source mutated in between. A case is non-trivial when the '
        'two (three) units differ and the value is non-zero, or when it is a refusal; distinct by the unit codes involved.')
ASSUMPTIONS = ['binary64 arithmetic of CPython/numpy follows IEEE 754 round-to-nearest (the rounding bound is derived from that)',
               'float64 numpy arrays of any shape / strides / memory order (the in-place form cannot hold the result in an integer array; float32 rounds the table constants too)',
               'the state of an EngVal object is its two public attributes value and uom (read directly by the history oracle)',
               'the OSDD table is the static snapshot read by read_osdd_static_data(); the live HTTP table of _slb_units() is never fetched',
               'LIS/core/Units.py is imported with assert statements enabled (they check the uniqueness the model also proves for the generated table)',
               'refusal is demanded of every entry point: convert, convert_function, convert_array, convert_array_inplace (array left untouched), LIS convert, EngVal']
TRUSTED = ['modelled, not verified: numpy broadcasting of a scalar over a float64 array = List.map; Python dict lookup = first match in a list with unique keys',
           'generated, compared on every run: lean/TD/TD/Gen/C17Osdd.lean and C17Lis.lean (exact rationals of the table doubles) vs the Unit / UnitConvert objects of the imported modules',
           'paper derivation of the running error bound used by the rounding oracle (text in coverage.rounding_bound)']

ANCHOR_FILES = ['src/TotalDepth/common/units.py', 'src/TotalDepth/common/data/osdd_units.json',
                'src/TotalDepth/LIS/core/Units.py', 'src/TotalDepth/LIS/core/EngVal.py']

CHUNK = 64          # rows per generated Lean list literal


# ------------------------------------------------------------------ translate: /repo sources -> Lean tables

def _repo():
    import core
    return core.REPO


def _gen_dir():
    import core
    return os.path.join(core.LEAN_DIR, 'TD', 'Gen')


def lean_str(s: str) -> str:
    out = []
    for ch in s:
        o = ord(ch)
        if ch == '"': out.append('\\"')
        elif ch == '\\': out.append('\\\\')
        elif 0x20 <= o < 0x7f: out.append(ch)
        else: out.append('\\u{%x}' % o)
    return '"' + ''.join(out) + '"'


def ratio(x):
    """Exact (numerator, denominator) of a Python float / int; (0, 0) marks a value that is not a finite number."""
    if isinstance(x, bool) or not isinstance(x, (int, float)):
        return 0, 0
    if isinstance(x, float) and not math.isfinite(x):
        return 0, 0
    f = Fraction(x)
    return f.numerator, f.denominator


def _lean_int(n: int) -> str:
    return str(n) if n >= 0 else f'({n})'


def read_osdd(repo=None):
    """The table as the code reads it offline: TotalDepth.common.units.read_osdd_static_data() (never the HTTP path)."""
    from TotalDepth.common import units
    src = os.path.realpath(units.__file__)
    want = os.path.realpath(os.path.join(repo or _repo(), 'src', 'TotalDepth', 'common', 'units.py'))
    if src != want:
        import core
        raise core.InfraError(f'TotalDepth imported from {src}, expected {want}')
    return units.read_osdd_static_data()


def osdd_lean(table) -> str:
    rows = []
    for key, u in table.items():
        sn, sd = ratio(u.scale)
        on, od = ratio(u.offset)
        rows.append(f'  ⟨{lean_str(str(key))}, {lean_str(str(u.code))}, {lean_str(str(u.dimension))}, {_lean_int(sn)}, {sd}, {_lean_int(on)}, {od}⟩')
    out = ['/-',
           'GENERATED by harness/props/c17.py translate() from src/TotalDepth/common/data/osdd_units.json as read by',
           'TotalDepth.common.units.read_osdd_static_data(). Rewritten on every run of ./check C17. Do not edit.',
           'Row = (dictionary key, code, dimension, scale numerator, scale denominator, offset numerator, offset denominator);',
           'numerator/denominator is the exact rational value of the JSON double (denominator 0 marks a non-finite value).',
           '-/',
           'namespace TD.Gen.C17Osdd',
           '',
           'structure Row where',
           '  key : String',
           '  code : String',
           '  dim : String',
           '  sn : Int',
           '  sd : Nat',
           '  on : Int',
           '  od : Nat',
           '']
    names = []
    for k in range(0, len(rows), CHUNK):
        name = f'c{k // CHUNK}'
        names.append(name)
        out.append(f'def {name} : List Row := [')
        out.append(',\n'.join(rows[k:k + CHUNK]))
        out.append(']')
        out.append('')
    out.append('def chunks : List (List Row) := [' + ', '.join(names) + ']')
    out.append('')
    out.append('def rows : List Row := chunks.flatten')
    out.append('')
    out.append(f'def rowCount : Nat := {len(rows)}')
    out.append('')
    out.append('end TD.Gen.C17Osdd')
    return '\n'.join(out) + '\n'


class _Eval(ast.NodeVisitor):
    """Evaluates the literal expressions of LIS/core/Units.py::__RAW_UNIT_MAP with Python float arithmetic (what the import does)."""
    def __init__(self, env):
        self.env = env

    def ev(self, n):
        if isinstance(n, ast.Constant):
            return n.value
        if isinstance(n, ast.Name):
            return self.env[n.id]
        if isinstance(n, ast.Attribute) and isinstance(n.value, ast.Name) and n.value.id == 'math':
            return getattr(math, n.attr)
        if isinstance(n, ast.Tuple):
            return tuple(self.ev(e) for e in n.elts)
        if isinstance(n, ast.List):
            return [self.ev(e) for e in n.elts]
        if isinstance(n, ast.Dict):
            return {self.ev(k): self.ev(v) for k, v in zip(n.keys, n.values)}
        if isinstance(n, ast.UnaryOp):
            v = self.ev(n.operand)
            if isinstance(n.op, ast.USub): return -v
            if isinstance(n.op, ast.UAdd): return +v
        if isinstance(n, ast.BinOp):
            a, b = self.ev(n.left), self.ev(n.right)
            if isinstance(n.op, ast.Add): return a + b
            if isinstance(n.op, ast.Sub): return a - b
            if isinstance(n.op, ast.Mult): return a * b
            if isinstance(n.op, ast.Div): return a / b
            if isinstance(n.op, ast.Pow): return a ** b
            if isinstance(n.op, ast.FloorDiv): return a // b
        if isinstance(n, ast.Call) and isinstance(n.func, ast.Attribute) and isinstance(n.func.value, ast.Name) \
                and n.func.value.id == 'math' and not n.keywords:
            return getattr(math, n.func.attr)(*[self.ev(a) for a in n.args])
        raise ValueError(f'unsupported expression in __RAW_UNIT_MAP: {ast.dump(n)[:120]}')


def read_lis_raw(repo=None):
    """__RAW_UNIT_MAP of LIS/core/Units.py, evaluated from the source text (the module deletes the name after import)."""
    path = os.path.join(repo or _repo(), 'src', 'TotalDepth', 'LIS', 'core', 'Units.py')
    tree = ast.parse(open(path, encoding='utf-8').read())
    env = {}
    ev = _Eval(env)
    for node in tree.body:
        if isinstance(node, ast.Assign) and len(node.targets) == 1 and isinstance(node.targets[0], ast.Name):
            name = node.targets[0].id
            if name == '__RAW_UNIT_MAP':
                return ev.ev(node.value)
            try:
                env[name] = ev.ev(node.value)
            except (ValueError, KeyError):
                pass
    raise ValueError('__RAW_UNIT_MAP not found in ' + path)


def _b2s(b) -> str:
    """bytes -> String, injectively (latin-1); anything else -> its repr prefixed so that it cannot clash."""
    if isinstance(b, bytes):
        return b.decode('latin-1')
    return '␀' + repr(b)


def lis_rows(raw):
    """Flatten to [(cat, name, mult, offs-or-None)] in source order; the 4-tuple / 5-tuple rule of UnitConvert.__init__."""
    out = []
    for cat, (desc, base, units) in raw.items():
        for tup in units:
            if len(tup) == 4:
                out.append((cat, tup[0], tup[1], None))
            else:
                out.append((cat, tup[0], tup[1], tup[2]))
    return out


def lis_lean(raw) -> str:
    out = ['/-',
           'GENERATED by harness/props/c17.py translate() from __RAW_UNIT_MAP in src/TotalDepth/LIS/core/Units.py (evaluated from the',
           'source text with Python float arithmetic). Rewritten on every run of ./check C17. Do not edit.',
           'Row = (unit name, multiplier numerator, denominator, has offset (5-tuple), offset numerator, denominator);',
           'names are the 4-byte LIS mnemonics decoded as latin-1; denominator 0 marks a value that is not a finite number.',
           '-/',
           'namespace TD.Gen.C17Lis',
           '',
           'structure Row where',
           '  name : String',
           '  mn : Int',
           '  md : Nat',
           '  hasOffs : Bool',
           '  on : Int',
           '  od : Nat',
           '',
           'structure Cat where',
           '  cat : String',
           '  base : String',
           '  units : List Row',
           '']
    names = []
    n = 0
    for k, (cat, (desc, base, units)) in enumerate(raw.items()):
        name = f'k{k}'
        names.append(name)
        rows = []
        for tup in units:
            mult = tup[1]
            offs = tup[2] if len(tup) == 5 else None
            mn, md = ratio(mult)
            on, od = ratio(offs) if offs is not None else (0, 1)
            rows.append(f'    ⟨{lean_str(_b2s(tup[0]))}, {_lean_int(mn)}, {md}, {"true" if offs is not None else "false"}, {_lean_int(on)}, {od}⟩')
            n += 1
        out.append(f'def {name} : Cat := ⟨{lean_str(_b2s(cat))}, {lean_str(_b2s(base))}, [')
        out.append(',\n'.join(rows))
        out.append('  ]⟩')
        out.append('')
    out.append('def cats : List Cat := [' + ', '.join(names) + ']')
    out.append('')
    out.append(f'def unitCount : Nat := {n}')
    out.append('')
    out.append('end TD.Gen.C17Lis')
    return '\n'.join(out) + '\n'


def _write_if_changed(path, text):
    old = None
    if os.path.exists(path):
        with open(path, encoding='utf-8') as fh:
            old = fh.read()
    if old != text:
        os.makedirs(os.path.dirname(path), exist_ok=True)
        tmp = path + '.tmp'
        with open(tmp, 'w', encoding='utf-8') as fh:
            fh.write(text)
        os.replace(tmp, path)
        return True
    return False


def translate(ctx):
    """Regenerate lean/TD/TD/Gen/C17Osdd.lean and C17Lis.lean from the sources under core.REPO (byte-deterministic)."""
    repo = _repo()
    a = _write_if_changed(os.path.join(_gen_dir(), 'C17Osdd.lean'), osdd_lean(read_osdd(repo)))
    b = _write_if_changed(os.path.join(_gen_dir(), 'C17Lis.lean'), lis_lean(read_lis_raw(repo)))
    if ctx is not None:
        ctx.note(f'translate: tables regenerated from {repo}/src (C17Osdd.lean {"rewritten" if a else "unchanged"}, '
                 f'C17Lis.lean {"rewritten" if b else "unchanged"})')


# ------------------------------------------------------------------ exact reference and the rounding bound

U53 = Fraction(1, 2 ** 53)            # unit roundoff of binary64 (round to nearest)
ETA = Fraction(1, 2 ** 1074)          # smallest subnormal: absolute slack per operation should a result underflow
_G = {n: (1 + U53) ** n - 1 for n in range(0, 6)}

BOUND_TEXT = (
    'Standard model fl(x op y) = (x op y)(1+d), |d| <= u = 2^-53 (binary64, round to nearest, no overflow; underflow '
    'covered by an absolute slack of 4*2^-1074). With A = the exact value before the final addition of the target offset '
    '(A = (v-o1)*s1/s2), E = A + o2 the exact result, n the number of operations before that addition (n = 3 with offsets: '
    '-,*,/ ; n = 2 without: *,/ scalar or /,* array; LIS: 2 or 3 by whether the source unit has an offset): '
    '|fl - E| <= |A|*((1+u)^n - 1)*(1+u) + u*|E| when the final + is executed, |fl - E| <= |E|*((1+u)^n - 1) otherwise. '
    'Composite laws: |convert(convert(v,a,b),b,c) - E_ac| <= bound_bc(w) + bound_ab(v)*|s_b/s_c| with w the computed '
    'intermediate (round trip: c = a, E_ac = v); scalar vs array forms differ by at most the sum of their two bounds.')


def err_bound(A, E, n_pre, has_add):
    b = abs(A) * _G[n_pre]
    if has_add:
        b = b * (1 + U53) + U53 * abs(E)
    return b + 4 * ETA


def fbits(x: float) -> int:
    return struct.unpack('>Q', struct.pack('>d', x))[0]


def bits_f(n: int) -> float:
    return struct.unpack('>d', struct.pack('>Q', n))[0]


def qstr(x) -> str:
    n, d = ratio(x)
    return f'{n}/{d}'


class OU:
    """One OSDD unit with its exact values (taken from the Unit object the implementation itself loaded)."""
    __slots__ = ('idx', 'key', 'unit', 's', 'o', 'has_off', 'finite')

    def __init__(self, idx, key, unit):
        self.idx, self.key, self.unit = idx, key, unit
        self.finite = ratio(unit.scale)[1] != 0 and ratio(unit.offset)[1] != 0
        self.s = Fraction(unit.scale) if self.finite else None
        self.o = Fraction(unit.offset) if self.finite else None
        self.has_off = unit.offset != 0.0


def osdd_exact(vF, a: OU, b: OU, array_form=False):
    """(E, A, n_pre, has_add) of the conversion a -> b as specified (affine map through the base unit), or None when no
    finite conversion exists (zero / non-finite scale)."""
    if not (a.finite and b.finite) or b.s == 0:
        return None
    if a.has_off or b.has_off:
        A = (vF - a.o) * a.s / b.s
        return A + b.o, A, 3, True
    A = vF * a.s / b.s
    return A, A, 2, False


def _units_exc(U):
    return U.ExceptionUnits


def osdd_call(U, fn, *args):
    """Run one implementation entry point: ('ok', value) | ('units', clsname) | ('exc', clsname)."""
    try:
        return 'ok', fn(*args)
    except U.ExceptionUnits as e:
        return 'units', type(e).__name__
    except Exception as e:                      # noqa: BLE001 - any other exception is a finding, not an infra error
        return 'exc', type(e).__name__


def canon(kind, val):
    if kind == 'ok':
        return f'ok {fbits(val)}' if isinstance(val, float) else f'ok ?{type(val).__name__}:{val!r}'
    if kind == 'units':
        return 'err units'
    return 'err ' + val


def canon_model(reply: str) -> str:
    if reply.startswith('err ExceptionUnits'):
        parts = reply.split(' ', 2)
        return 'err units' + (' ' + parts[2] if len(parts) > 2 else '')
    return reply


def is_num(x):
    return isinstance(x, float) and math.isfinite(x)


def corr_num(ctx, stream, case, impl, model, recheck):
    """Numeric streams are compared bit for bit with the Float instance of the model. A difference in bits only counts as a
    correspondence disagreement when the implementation's value is also outside the rounding bound of the exact value
    (recheck() returns a failure text): the property allows any evaluation order that stays within rounding."""
    if model is None:
        return
    m = canon_model(model)
    if impl != m and impl.startswith('ok ') and m.startswith('ok ') and recheck() is None:
        ctx.count('bitwise_differences_within_rounding_bound')
        ctx.corr(stream, case, 'ok (within rounding of the exact value)', 'ok (within rounding of the exact value)')
    else:
        ctx.corr(stream, case, impl, m)


def check_scalar(res, ex, what):
    """res = ('ok', float)...; ex = osdd_exact/lis_exact tuple. Returns None or a failure text."""
    kind, val = res
    if kind != 'ok':
        return f'{what}: raised {val} for two units of one dimension/category'
    if ex is None:
        return f'{what}: returned {val!r} although the table holds a zero or non-finite scale (no conversion exists)'
    if not is_num(val):
        return f'{what}: returned {val!r}, not a finite float'
    E, A, n_pre, has_add = ex
    B = err_bound(A, E, n_pre, has_add)
    d = abs(Fraction(val) - E)
    if d > B:
        return f'{what}: got {val!r} ({val.hex()}), exact {float(E)!r}, |diff| {float(d):.3e} > rounding bound {float(B):.3e}'
    return None


def gen_values(rng, k):
    """k finite test values: spread magnitudes, random mantissas and signs; a few specials."""
    mags = [1e-6, 1e-3, 1.0, 1e2, 1e3, 1e6, 1e9, 1e-9, 1e12, 1e-1, 1e1, 1e4, 1e-4, 1e7, 1e-12, 1e15]
    out = []
    for i in range(k):
        m = mags[i % len(mags)]
        v = rng.uniform(1.0, 10.0) * m
        if rng.random() < 0.5: v = -v
        out.append(v)
    return out


SPECIALS = [0.0, -0.0, 1.0, -1.0, 100.0, 273.15, -459.67, 32.0]


# ------------------------------------------------------------------ OSDD run

def load_osdd():
    from TotalDepth.common import units as U
    table = read_osdd()
    ous = [OU(i, k, u) for i, (k, u) in enumerate(table.items())]
    return U, ous


def impl_osdd_row(ou: OU):
    u = ou.unit
    sb = fbits(u.scale) if isinstance(u.scale, float) and ou.finite else '?'
    ob = fbits(u.offset) if isinstance(u.offset, float) and ou.finite else '?'
    h = lambda s: (str(s).encode('utf-8').hex() or '-')
    return f'{h(ou.key)} {h(u.code)} {h(u.dimension)} {qstr(u.scale)} {qstr(u.offset)} {sb} {ob}'


def run_osdd(ctx, boost=False):
    import numpy as np
    U, ous = load_osdd()
    rng = ctx.rng
    model_ok = getattr(ctx, 'model_available', True)
    lean = (lambda lines: ctx.lean(lines)) if model_ok else (lambda lines: [None] * len(lines))

    def corr(stream, case, impl, model):
        if model is not None:
            ctx.corr(stream, case, impl, canon_model(model))

    # ---- the table itself: generated Lean rows == what the implementation loads
    rep = lean(['ocount'] + [f'orow {i}' for i in range(len(ous))])
    corr('osdd_table', {'op': 'ocount'}, f'{len(ous)} {len(ous)}', rep[0])
    for ou, m in zip(ous, rep[1:]):
        corr('osdd_table', {'op': 'orow', 'i': ou.idx, 'key': ou.key}, impl_osdd_row(ou), m)
    dims = {}
    for ou in ous:
        dims.setdefault(ou.unit.dimension, []).append(ou)
    ctx.extra['osdd_units'] = len(ous)
    ctx.extra['osdd_dimensions'] = len(dims)
    ctx.extra['osdd_units_with_offset'] = sum(1 for o in ous if o.has_off)
    # the code's key/code agreement, and a zero/non-finite scale, are properties of the table as loaded
    for ou in ous:
        ctx.count('oracle_cases')
        if not ou.finite or ou.s == 0:
            ctx.fail({'op': 'osdd_scale', 'key': ou.key}, f'unit {ou.key!r} has scale {ou.unit.scale!r} / offset {ou.unit.offset!r}: '
                     'no invertible conversion exists for it')

    K = ctx.n(7, 21) * (2 if boost else 1)
    KRT = ctx.n(3, 8)
    npairs = 0
    lines, cases = [], []          # driver requests and what to compare them with
    arr_jobs = []
    n_fail_before = len(ctx.failures)
    for dim, members in dims.items():
        vals = gen_values(rng, K)
        if ctx.tier == 'thorough' or boost:
            vals += SPECIALS
        vF = [Fraction(v) for v in vals]
        vb = [fbits(v) for v in vals]
        for a in members:
            for b in members:
                npairs += 1
                ua, ub = a.unit, b.unit
                off = a.has_off or b.has_off
                okpair = a.finite and b.finite and b.s != 0
                if okpair:
                    ratio_ab = a.s / b.s
                results, passed = [], []
                for k, v in enumerate(vals):
                    res = osdd_call(U, U.convert, v, ua, ub)
                    results.append(res)
                    lines.append(f'oconv {a.idx} {b.idx} {vb[k]}')
                    cases.append(('osdd_convert', a, b, v, res))
                    ctx.count('oracle_cases')
                    # inlined fast path of check_scalar / osdd_exact
                    bad = None
                    if res[0] != 'ok' or not okpair or not is_num(res[1]):
                        bad = check_scalar(res, osdd_exact(vF[k], a, b), 'convert')
                    else:
                        if off:
                            A = (vF[k] - a.o) * ratio_ab
                            E = A + b.o
                            B = err_bound(A, E, 3, True)
                        else:
                            E = vF[k] * ratio_ab
                            B = abs(E) * _G[2] + 4 * ETA
                        if abs(Fraction(res[1]) - E) > B:
                            bad = check_scalar(res, osdd_exact(vF[k], a, b), 'convert')
                    passed.append(bad is None)
                    if bad:
                        ctx.fail({'op': 'osdd_convert', 'from': a.key, 'to': b.key, 'v': v.hex()}, bad)
                    elif a is not b and v != 0.0:
                        ctx.nontriv(('osdd', a.key, b.key))
                # round trip on the first KRT values (there and back, on the implementation's own intermediate)
                for k in range(min(KRT, len(vals))):
                    if results[k][0] == 'ok' and is_num(results[k][1]):
                        ctx.count('oracle_cases')
                        bad = check_composite(U, vals[k], a, b, a, results[k][1])
                        if bad:
                            ctx.fail({'op': 'osdd_roundtrip', 'from': a.key, 'to': b.key, 'v': vals[k].hex()}, bad)
                arr_jobs.append((a, b, vals, results, passed))
    ctx.extra['osdd_ordered_pairs_same_dimension'] = npairs
    # scalar correspondence (bit for bit with the Float instance of the model)
    rep = lean(lines)
    for (stream, a, b, v, res), m in zip(cases, rep):
        corr_num(ctx, stream, {'op': stream, 'from': a.key, 'to': b.key, 'v': v.hex()}, canon(*res), m,
                 lambda: check_scalar(res, osdd_exact(Fraction(v), a, b), 'convert'))
    ctx.sample({'op': 'osdd_convert', 'from': cases[len(cases) // 3][1].key, 'to': cases[len(cases) // 3][2].key,
                'v': cases[len(cases) // 3][3], 'impl': canon(*cases[len(cases) // 3][4]), 'model': rep[len(cases) // 3]})
    del lines, cases, rep

    # ---- array forms (copying and in place) and convert_function, every ordered pair
    lines, meta = [], []
    for a, b, vals, results, passed in arr_jobs:
        src = np.array(vals, dtype=np.float64)
        keep = src.copy()
        case = {'op': 'osdd_array', 'from': a.key, 'to': b.key, 'vals': [v.hex() for v in vals]}
        ctx.count('oracle_cases')
        bad, out_copy, out_inp = check_arrays(U, np, a, b, vals, results, src, keep, passed)
        if bad:
            ctx.fail(case, bad)
        lines.append(f'oarr {a.idx} {b.idx} ' + ','.join(str(fbits(v)) for v in vals))
        meta.append(('osdd_array_copy', case, out_copy, (lambda bad=bad: bad)))
        lines.append(f'oinp {a.idx} {b.idx} ' + ','.join(str(fbits(v)) for v in vals))
        meta.append(('osdd_array_inplace', case, out_inp, (lambda bad=bad: bad)))
        # convert_function: made once, then applied
        kind, f = osdd_call(U, U.convert_function, a.unit, b.unit)
        ctx.count('oracle_cases')
        if kind != 'ok':
            ctx.fail({'op': 'osdd_function', 'from': a.key, 'to': b.key, 'v': vals[0].hex()},
                     f'convert_function raised {f} for two units of one dimension')
        else:
            r0 = osdd_call(U, f, vals[0])
            if canon(*r0) != canon(*results[0]):
                ctx.fail({'op': 'osdd_function', 'from': a.key, 'to': b.key, 'v': vals[0].hex()},
                         f'convert_function(a,b)(v) = {r0[1]!r} differs from convert(v,a,b) = {results[0][1]!r}')
            lines.append(f'ofun {a.idx} {b.idx} {fbits(vals[0])}')
            meta.append(('osdd_function', {'op': 'osdd_function', 'from': a.key, 'to': b.key, 'v': vals[0].hex()}, canon(*r0),
                         (lambda r0=r0, v=vals[0], a=a, b=b: check_scalar(r0, osdd_exact(Fraction(v), a, b), 'convert_function'))))
    rep = lean(lines)
    for (stream, case, impl, recheck), m in zip(meta, rep):
        corr_num(ctx, stream, case, impl, m, recheck)
    del lines, meta, rep, arr_jobs

    # ---- exact model (Rat instance, the one the theorems are about) == the Fraction reference of this oracle
    if model_ok:
        lines, want = [], []
        dl = [m for m in dims.values()]
        for _ in range(ctx.n(20000, 200000)):
            members = rng.choice(dl)
            a, b = rng.choice(members), rng.choice(members)
            v = rng.choice(gen_values(rng, 1) + SPECIALS)
            ex = osdd_exact(Fraction(v), a, b)
            if ex is None: continue
            lines.append(f'oq {a.idx} {b.idx} {qstr(v)}')
            want.append(({'op': 'osdd_exact', 'from': a.key, 'to': b.key, 'v': v.hex()}, f'ok {ex[0].numerator}/{ex[0].denominator}'))
        for (case, w), m in zip(want, ctx.lean(lines)):
            ctx.corr('osdd_rat_model_vs_fraction_reference', case, w, m)

    # ---- triples: via a third unit == directly
    budget = ctx.n(30000, 300000) * (2 if boost else 1)
    tot3 = sum(len(m) ** 3 for m in dims.values())
    for dim, members in dims.items():
        n = len(members)
        if n < 2: continue
        want = max(4, min(n ** 3, budget * n ** 3 // tot3 + 1))
        for _ in range(want):
            a, b, c = rng.choice(members), rng.choice(members), rng.choice(members)
            v = gen_values(rng, 1)[0] * rng.choice([1e-3, 1.0, 1e3])
            ctx.count('oracle_cases')
            bad = check_triple(U, v, a, b, c)
            if bad:
                ctx.fail({'op': 'osdd_triple', 'from': a.key, 'via': b.key, 'to': c.key, 'v': v.hex()}, bad)
            elif len({a.idx, b.idx, c.idx}) == 3:
                ctx.nontriv(('osdd3', a.key, b.key, c.key))

    # ---- array forms on strided / non-contiguous / multi-dimensional / empty arrays
    run_layouts(ctx, U, np, ous, dims, lean, boost)
    # ---- results held while further conversions are made
    run_hold_arrays(ctx, U, np, ous, dims, lean, boost)

    # ---- refusal: different dimensions
    refuse = []
    dkeys = list(dims)
    for d1 in dkeys:
        for d2 in dkeys:
            if d1 != d2:
                refuse.append((rng.choice(dims[d1]), rng.choice(dims[d2])))
    if ctx.tier == 'thorough' or boost:
        allcross = [(a, b) for a in ous for b in ous if a.unit.dimension != b.unit.dimension]
        ctx.extra['osdd_refusal_pairs'] = f'all {len(allcross)} ordered pairs of different dimension'
        sampled = set(rng.sample(range(len(allcross)), min(len(allcross), 200000)))
    else:
        allcross = []
        for _ in range(20000):
            a, b = rng.choice(ous), rng.choice(ous)
            if a.unit.dimension != b.unit.dimension:
                allcross.append((a, b))
        ctx.extra['osdd_refusal_pairs'] = (f'one random representative for each of the {len(refuse)} ordered pairs of dimensions '
                                           f'+ {len(allcross)} random cross pairs')
        sampled = set(range(len(allcross)))
    lines, meta = [], []
    for k, (a, b) in enumerate(refuse + allcross):
        v = rng.choice(SPECIALS) if k % 3 else gen_values(rng, 1)[0]
        case = {'op': 'osdd_refuse', 'from': a.key, 'to': b.key, 'v': v.hex()}
        ctx.count('oracle_cases')
        bad, r1, r2, r3, r4, after = check_refusal(U, np, v, a, b)
        if bad:
            ctx.fail(case, bad)
        else:
            ctx.nontriv(('osdd_refuse', a.unit.dimension, b.unit.dimension))
        if k < len(refuse) or (k - len(refuse)) in sampled:
            lines.append(f'oconv {a.idx} {b.idx} {fbits(v)}'); meta.append(('osdd_refuse', case, canon(*r1)))
            lines.append(f'ofun {a.idx} {b.idx} {fbits(v)}'); meta.append(('osdd_refuse_function', case, canon(r2[0], r2[1]) if r2[0] != 'ok' else 'ok function'))
            arr = f'{fbits(v)},{fbits(1.0)}'
            lines.append(f'oarr {a.idx} {b.idx} {arr}'); meta.append(('osdd_refuse_array_copy', case, canon(r3[0], r3[1]) if r3[0] != 'ok' else 'ok array'))
            lines.append(f'oinp {a.idx} {b.idx} {arr}')
            meta.append(('osdd_refuse_array_inplace', case, (canon(r4[0], r4[1]) if r4[0] != 'ok' else 'ok array') + ' after ' + after))
    rep = lean(lines)
    for (stream, case, impl), m in zip(meta, rep):
        corr(stream, case, impl, m)
    return len(ctx.failures) - n_fail_before


def check_refusal(U, np, v, a, b):
    """Two units of different dimension: every entry point (scalar, function, copying array, in-place array) must raise a
    subclass of ExceptionUnits, and the in-place form must leave the array as it was.
    Returns (failure text or None, the four outcomes, canonical array content after the in-place call)."""
    r1 = osdd_call(U, U.convert, v, a.unit, b.unit)
    r2 = osdd_call(U, U.convert_function, a.unit, b.unit)
    base = np.array([v, 7.0, 1.0, 9.0], dtype=np.float64)
    src = base[::2]                                  # a strided view: [v, 1.0]
    with np.errstate(all='ignore'):
        r3 = osdd_call(U, U.convert_array, src, a.unit, b.unit)
        wbase = base.copy()
        work = wbase[::2]
        r4 = osdd_call(U, U.convert_array_inplace, work, a.unit, b.unit)
    after = ','.join(str(fbits(float(x))) for x in work)
    untouched = [fbits(float(x)) for x in wbase] == [fbits(float(x)) for x in base]
    bad = None
    short = lambda r: f'{r[0]} {str(r[1])[:40]}'
    if any(r[0] != 'units' for r in (r1, r2, r3, r4)):
        bad = (f'units of dimensions {a.unit.dimension!r} / {b.unit.dimension!r}: convert -> {short(r1)}, convert_function -> {short(r2)}, '
               f'convert_array -> {short(r3)}, convert_array_inplace -> {short(r4)}; expected a subclass of ExceptionUnits from each')
    elif not untouched:
        bad = 'convert_array_inplace refused the conversion but had already modified the array'
    return bad, r1, r2, r3, r4, after


def check_composite(U, v, a, b, c, w):
    """convert(w, b, c) with w = convert(v, a, b) as computed by the implementation, against the exact a -> c result."""
    ex_ab = osdd_exact(Fraction(v), a, b)
    ex_ac = osdd_exact(Fraction(v), a, c)
    ex_bc = osdd_exact(Fraction(w), b, c)
    res = osdd_call(U, U.convert, w, b.unit, c.unit)
    what = f'convert(convert(v,{a.key!r},{b.key!r}),{b.key!r},{c.key!r})'
    if res[0] != 'ok':
        return f'{what}: second step raised {res[1]}'
    if ex_ab is None or ex_ac is None or ex_bc is None:
        return f'{what}: returned {res[1]!r} although a scale is zero / non-finite'
    if not is_num(res[1]):
        return f'{what}: returned {res[1]!r}'
    B1 = err_bound(ex_ab[1], ex_ab[0], ex_ab[2], ex_ab[3])
    B2 = err_bound(ex_bc[1], ex_bc[0], ex_bc[2], ex_bc[3])
    B = B2 + B1 * abs(b.s / c.s)
    d = abs(Fraction(res[1]) - ex_ac[0])
    if d > B:
        return (f'{what} = {res[1]!r}, exact direct value {float(ex_ac[0])!r}: |diff| {float(d):.3e} > propagated rounding bound {float(B):.3e}')
    return None


def check_triple(U, v, a, b, c):
    r1 = osdd_call(U, U.convert, v, a.unit, b.unit)
    bad = check_scalar(r1, osdd_exact(Fraction(v), a, b), f'convert({a.key!r}->{b.key!r})')
    if bad: return bad
    r3 = osdd_call(U, U.convert, v, a.unit, c.unit)
    bad = check_scalar(r3, osdd_exact(Fraction(v), a, c), f'convert({a.key!r}->{c.key!r})')
    if bad: return bad
    return check_composite(U, v, a, b, c, r1[1])


def check_arrays(U, np, a, b, vals, scalar_results, src, keep, scalar_ok=None):
    """convert_array / convert_array_inplace on a float64 array against the exact values and the scalar results.
    Returns (failure text or None, canonical copy result, canonical in-place result)."""
    with np.errstate(all='ignore'):
        rc = osdd_call(U, U.convert_array, src, a.unit, b.unit)
    canon_copy = canon_inp = None
    bad = None
    if rc[0] != 'ok':
        bad = f'convert_array raised {rc[1]}'
        canon_copy = canon(*rc)
    else:
        out = rc[1]
        if not isinstance(out, np.ndarray) or out.shape != src.shape or out.dtype != np.float64:
            bad = f'convert_array returned {type(out).__name__} {getattr(out, "shape", None)} {getattr(out, "dtype", None)}'
            canon_copy = 'ok ?'
        else:
            canon_copy = 'ok ' + ','.join(str(fbits(float(x))) for x in out)
            if not np.array_equal(src, keep) and not bad:
                bad = 'convert_array modified its argument'
    work = keep.copy()
    with np.errstate(all='ignore'):
        ri = osdd_call(U, U.convert_array_inplace, work, a.unit, b.unit)
    after = ','.join(str(fbits(float(x))) for x in work) or '-'
    if ri[0] != 'ok':
        bad = bad or f'convert_array_inplace raised {ri[1]}'
        canon_inp = canon(*ri) + ' after ' + after
    else:
        canon_inp = f'ok {after} after {after}'
        if ri[1] is not None and not bad:
            bad = f'convert_array_inplace returned {type(ri[1]).__name__}, documented None'
    if bad:
        return bad, canon_copy, canon_inp
    out = rc[1]
    off = a.has_off or b.has_off
    for k, v in enumerate(vals):
        sr = scalar_results[k]
        if scalar_ok and scalar_ok[k] and sr[0] == 'ok' and is_num(sr[1]):
            sb = fbits(sr[1])
            if fbits(float(out[k])) == sb and fbits(float(work[k])) == sb:
                continue            # identical to a scalar result that is itself within the bound
        ex = osdd_exact(Fraction(v), a, b)
        for name, got in (('convert_array', float(out[k])), ('convert_array_inplace', float(work[k]))):
            t = check_scalar(('ok', got), ex, f'{name}[{k}] (v={v!r})')
            if t: return t, canon_copy, canon_inp
        if fbits(float(out[k])) != fbits(float(work[k])):
            return (f'in place {float(work[k])!r} differs from copying {float(out[k])!r} at [{k}] (same operations, must be identical)',
                    canon_copy, canon_inp)
        if sr[0] == 'ok' and is_num(sr[1]):
            if off and fbits(sr[1]) != fbits(float(out[k])):
                return (f'offset branch: array element {float(out[k])!r} differs from scalar convert {sr[1]!r} at v={v!r} '
                        '(same operations, must be identical)', canon_copy, canon_inp)
            if ex is not None:
                B = 2 * err_bound(ex[1], ex[0], ex[2], ex[3])
                if abs(Fraction(float(out[k])) - Fraction(sr[1])) > B:
                    return f'array element {float(out[k])!r} vs scalar {sr[1]!r} at v={v!r}: beyond twice the rounding bound', canon_copy, canon_inp
    return None, canon_copy, canon_inp


# ------------------------------------------------------------------ LIS run

class LU:
    """One LIS unit as the imported module holds it (UnitConvert.mult / .offs), with exact values."""
    __slots__ = ('idx', 'cat', 'name', 'mult', 'offs', 'm', 'o', 'finite')

    def __init__(self, idx, cat, name, mult, offs):
        self.idx, self.cat, self.name, self.mult, self.offs = idx, cat, name, mult, offs
        self.finite = ratio(mult)[1] != 0 and (offs is None or ratio(offs)[1] != 0)
        self.m = Fraction(mult) if self.finite else None
        self.o = (Fraction(offs) if offs is not None else None) if self.finite else None


def load_lis():
    from TotalDepth.LIS.core import Units as L
    lus = []
    for c in L.unitCategories():
        ucc = L.retUnitConvertCategory(c)
        for name in ucc.units():
            uc = ucc.unitConvertor(name)
            lus.append(LU(len(lus), c, name, uc.mult, uc.offs))
    return L, lus


def bhex(b) -> str:
    return (b.hex() or '-') if isinstance(b, bytes) else '?'


def impl_lis_row(lu: LU):
    fb = lambda x: fbits(float(x)) if ratio(x)[1] else '?'
    off = f'{qstr(lu.offs)} {fb(lu.offs)}' if lu.offs is not None else 'N N'
    return f'{bhex(lu.cat)} {bhex(lu.name)} {qstr(lu.mult)} {fb(lu.mult)} {off}'


def lis_exact(vF, x: LU, y: LU):
    if not (x.finite and y.finite) or y.m == 0:
        return None
    t = vF - x.o if x.o is not None else vF
    A = t * x.m / y.m
    n_pre = 3 if x.o is not None else 2
    if y.o is not None:
        return A + y.o, A, n_pre, True
    return A, A, n_pre, False


def lis_composite(L, v, x, y, z, w):
    ex_xy, ex_xz, ex_yz = lis_exact(Fraction(v), x, y), lis_exact(Fraction(v), x, z), lis_exact(Fraction(w), y, z)
    res = osdd_call(L, L.convert, w, y.name, z.name)
    what = f'convert(convert(v,{x.name!r},{y.name!r}),{y.name!r},{z.name!r})'
    if res[0] != 'ok':
        return f'{what}: second step raised {res[1]}'
    if ex_xy is None or ex_xz is None or ex_yz is None:
        return f'{what}: returned {res[1]!r} although a multiplier is zero / non-finite'
    if not is_num(res[1]):
        return f'{what}: returned {res[1]!r}'
    B = err_bound(ex_yz[1], ex_yz[0], ex_yz[2], ex_yz[3]) + err_bound(ex_xy[1], ex_xy[0], ex_xy[2], ex_xy[3]) * abs(y.m / z.m)
    d = abs(Fraction(res[1]) - ex_xz[0])
    if d > B:
        return f'{what} = {res[1]!r}, exact direct value {float(ex_xz[0])!r}: |diff| {float(d):.3e} > propagated rounding bound {float(B):.3e}'
    return None


JUNK_UNITS = [b'XXXX', b'feet', b'FEE ', b'FEET ', b' FEET', b'FT', b'M', b'', b'    X', b'\x00\x00\x00\x00', b'DEG', b'DEGX', b'KELV',
              b'M  ', b'm   ', b'LENG', b'TIME', b'TEMP', b'\xff\xfe\xfd\xfc', b'GAPJ', b'0000', b'MS/N', b'?   ']


def run_lis(ctx, boost=False):
    L, lus = load_lis()
    from TotalDepth.LIS.core import EngVal as EV
    rng = ctx.rng
    model_ok = getattr(ctx, 'model_available', True)
    lean = (lambda lines: ctx.lean(lines)) if model_ok else (lambda lines: [None] * len(lines))

    def corr(stream, case, impl, model):
        if model is not None:
            ctx.corr(stream, case, impl, canon_model(model))

    cats = {}
    for lu in lus:
        cats.setdefault(lu.cat, []).append(lu)
    known = {lu.name for lu in lus}
    ctx.extra['lis_units'] = len(lus)
    ctx.extra['lis_categories'] = len(cats)
    rep = lean(['lcount'] + [f'lrow {i}' for i in range(len(lus))])
    corr('lis_table', {'op': 'lcount'}, f'{len(lus)} {len(lus)} {len(cats)}', rep[0])
    for lu, m in zip(lus, rep[1:]):
        corr('lis_table', {'op': 'lrow', 'i': lu.idx, 'name': bhex(lu.name)}, impl_lis_row(lu), m)
    for lu in lus:
        ctx.count('oracle_cases')
        if not lu.finite or lu.m == 0:
            ctx.fail({'op': 'lis_mult', 'name': bhex(lu.name)}, f'LIS unit {lu.name!r} has multiplier {lu.mult!r} / offset {lu.offs!r}: '
                     'no invertible conversion exists for it')
    # ---- same category: every ordered pair, round trips, every triple
    K = ctx.n(9, 40) * (2 if boost else 1)
    lines, meta, qlines, qmeta = [], [], [], []
    for cat, members in cats.items():
        vals = gen_values(rng, K) + SPECIALS
        for x in members:
            for y in members:
                for v in vals:
                    case = {'op': 'lis_convert', 'from': bhex(x.name), 'to': bhex(y.name), 'v': v.hex()}
                    res = osdd_call(L, L.convert, v, x.name, y.name)
                    ctx.count('oracle_cases')
                    bad = check_scalar(res, lis_exact(Fraction(v), x, y), 'LIS convert')
                    if bad:
                        ctx.fail(case, bad)
                    else:
                        if x is not y and v != 0.0: ctx.nontriv(('lis', x.name, y.name))
                        ctx.count('oracle_cases')
                        bad_rt = lis_composite(L, v, x, y, x, res[1])
                        if bad_rt:
                            ctx.fail({'op': 'lis_roundtrip', 'from': bhex(x.name), 'to': bhex(y.name), 'v': v.hex()}, bad_rt)
                    lines.append(f'lconv {bhex(x.name)} {bhex(y.name)} {fbits(v)}')
                    meta.append(('lis_convert', case, canon(*res), (lambda bad=bad: bad)))
                v = vals[0]
                ex = lis_exact(Fraction(v), x, y)
                if ex is not None:
                    qlines.append(f'lq {bhex(x.name)} {bhex(y.name)} {qstr(v)}')
                    qmeta.append(({'op': 'lis_exact', 'from': bhex(x.name), 'to': bhex(y.name), 'v': v.hex()}, f'ok {ex[0].numerator}/{ex[0].denominator}'))
                # val is None -> 0. (as coded; correspondence only)
                rn = osdd_call(L, L.convert, None, x.name, y.name)
                lines.append(f'lconv {bhex(x.name)} {bhex(y.name)} N'); meta.append(('lis_convert_none', {'op': 'lis_none', 'from': bhex(x.name), 'to': bhex(y.name)}, canon(*rn)))
        tv = vals[:ctx.n(2, 6)]
        for x in members:
            for y in members:
                for z in members:
                    for v in tv:
                        ctx.count('oracle_cases')
                        r1 = osdd_call(L, L.convert, v, x.name, y.name)
                        if r1[0] != 'ok' or not is_num(r1[1]):
                            continue        # already reported by the pair loop
                        bad = lis_composite(L, v, x, y, z, r1[1])
                        if bad:
                            ctx.fail({'op': 'lis_triple', 'from': bhex(x.name), 'via': bhex(y.name), 'to': bhex(z.name), 'v': v.hex()}, bad)
                        elif len({x.idx, y.idx, z.idx}) == 3:
                            ctx.nontriv(('lis3', x.name, y.name, z.name))
    # ---- refusals: every ordered pair of different categories; unknown units
    refusals = [(x.name, y.name, 'category') for x in lus for y in lus if x.cat != y.cat]
    junk = [j for j in JUNK_UNITS if j not in known]
    for _ in range(ctx.n(60, 600)):
        j = bytes(rng.choice(b'ABCDEFGHIJKLMNOPQRSTUVWXYZ0123456789/-. ') for _ in range(rng.choice([4, 4, 4, 3, 5])))
        if j not in known: junk.append(j)
    some_known = [rng.choice(lus).name for _ in range(ctx.n(12, 60))]
    for j in junk:
        for kname in some_known[:ctx.n(4, 20)]:
            refusals.append((j, kname, 'unknown')); refusals.append((kname, j, 'unknown'))
        refusals.append((j, rng.choice(junk), 'unknown')); refusals.append((j, j, 'unknown'))
    for u1, u2, why in refusals:
        v = rng.choice(SPECIALS + gen_values(rng, 2))
        case = {'op': 'lis_refuse', 'from': bhex(u1), 'to': bhex(u2), 'v': v.hex(), 'why': why}
        res = osdd_call(L, L.convert, v, u1, u2)
        ctx.count('oracle_cases')
        if res[0] != 'units':
            ctx.fail(case, f'LIS convert({v!r}, {u1!r}, {u2!r}) ({why} mismatch): {res[0]} {res[1]!r}; expected a subclass of LIS ExceptionUnits')
        else:
            ctx.nontriv(('lis_refuse', u1, u2))
        lines.append(f'lconv {bhex(u1)} {bhex(u2)} {fbits(v)}'); meta.append(('lis_refuse', case, canon(*res)))
    # str instead of bytes is not a key of the table either (oracle only: the model's names are byte strings)
    for s in ('FEET', 'M   ', 'DEGC'):
        for other in (b'FEET', b'DEGC'):
            for u1, u2 in ((s, other), (other, s)):
                ctx.count('oracle_cases')
                res = osdd_call(L, L.convert, 1.0, u1, u2)
                if res[0] != 'units':
                    enc = lambda u: {'str': u} if isinstance(u, str) else {'bytes': u.hex()}
                    ctx.fail({'op': 'lis_refuse_str', 'from': enc(u1), 'to': enc(u2)}, f'LIS convert(1.0, {u1!r}, {u2!r}): {res[0]} {res[1]!r}; expected a units error')
    # category()
    for name in [lu.name for lu in lus] + junk:
        try:
            r = 'ok ' + bhex(L.category(name))
        except L.ExceptionUnits:
            r = 'err units'
        lines.append(f'lcat {bhex(name)}'); meta.append(('lis_category', {'op': 'lis_category', 'name': bhex(name)}, r))
    # ---- EngVal entry points: getInUnits / convert / newEngValInUnits / arithmetic, against Units.convert
    ev_cases = []
    for cat, members in cats.items():
        for x in members:
            for y in members:
                ev_cases.append((x.name, y.name))
    ev_cases += [(a, b) for a, b, _ in rng.sample(refusals, min(len(refusals), ctx.n(3000, 30000)))]
    ev_cases += [(j, j) for j in junk]       # equal unknown units: Units.convert refuses, EngVal returns the value untouched
    for u1, u2 in ev_cases:
        v = rng.choice(SPECIALS[2:] + gen_values(rng, 3))
        w = rng.choice(gen_values(rng, 2))
        case = {'op': 'engval', 'from': bhex(u1), 'to': bhex(u2), 'v': v.hex(), 'w': w.hex()}
        ctx.count('oracle_cases')
        bad, outs = check_engval(L, EV, u1, u2, v, w, must_refuse(lus, u1, u2))
        if bad:
            ctx.fail(case, bad)
        for op, out in outs.items():
            lines.append(f'{op} {bhex(u1)} {bhex(u2)} {fbits(v)}'); meta.append(('engval_' + op, case, out, (lambda bad=bad: bad)))
    run_history(ctx, L, EV, lus, lean, boost)
    run_hold_engval(ctx, L, EV, lus, boost)
    rep = lean(lines)
    for item, m in zip(meta, rep):
        if len(item) == 4:
            corr_num(ctx, item[0], item[1], item[2], m, item[3])
        else:
            corr(item[0], item[1], item[2], m)
    if model_ok:
        for (case, w), m in zip(qmeta, ctx.lean(qlines)):
            ctx.corr('lis_rat_model_vs_fraction_reference', case, w, m)
    ctx.sample({'op': 'lis_convert', 'request': lines[5], 'impl': meta[5][2], 'model': rep[5]})
    ctx.extra['lis_refusal_pairs'] = f'all {sum(1 for r in refusals if r[2] == "category")} ordered pairs of different category + {sum(1 for r in refusals if r[2] == "unknown")} with an unknown unit'
    ctx.note('informational: EngVal.getInUnits/convert/newEngValInUnits return the value untouched when the requested units equal '
             'the current ones, before any table lookup - also for a unit the table does not know (no conversion is performed)')
    ctx.note('informational: LIS Units.convert refuses a category mismatch with ExceptionUnitsNoUnitInCategory (the documented '
             'ExceptionUnitsMissmatchedCategory is constructed without raise); both are ExceptionUnits, accepted (DESIGN section 5)')


def must_refuse(lus, u1, u2):
    """different names, and not two known units of one category"""
    cat = {l.name: l.cat for l in lus}
    return u1 != u2 and (u1 not in cat or u2 not in cat or cat[u1] != cat[u2])


def check_engval(L, EV, u1, u2, v, w, refuse=False):
    """EngVal conversion entry points against Units.convert on the same arguments (bit for bit / same refusal)."""
    def ev_canon(kind, val):
        if kind == 'ok':
            return f'ok {fbits(val.value)} {bhex(val.uom)}' if isinstance(val.value, float) else f'ok ?{val.value!r}'
        return canon(kind, val)
    ref = ('ok', v) if u1 == u2 else osdd_call(L, L.convert, v, u1, u2)
    outs = {}
    r_get = osdd_call(L, EV.EngVal(v, u1).getInUnits, u2)
    outs['eget'] = canon(*r_get)
    e = EV.EngVal(v, u1)
    r_c = osdd_call(L, e.convert, u2)
    outs['econv'] = ev_canon('ok', e) if r_c[0] == 'ok' else canon(*r_c)
    r_n = osdd_call(L, EV.EngVal(v, u1).newEngValInUnits, u2)
    outs['enew'] = ev_canon(*r_n)
    want = canon(*ref)
    want_ev = f'{want} {bhex(u2)}' if ref[0] == 'ok' else want
    if refuse and (r_get[0] != 'units' or r_c[0] != 'units' or r_n[0] != 'units'):
        return (f'EngVal({v!r},{u1!r}) asked for {u2!r} (unknown unit or other category): getInUnits -> {outs["eget"]}, convert -> '
                f'{outs["econv"]}, newEngValInUnits -> {outs["enew"]}; expected units errors'), outs
    if outs['eget'] != want:
        return f'EngVal({v!r},{u1!r}).getInUnits({u2!r}) -> {outs["eget"]}, Units.convert -> {want}', outs
    if outs['econv'] != want_ev:
        return f'EngVal({v!r},{u1!r}).convert({u2!r}) -> {outs["econv"]}, expected {want_ev}', outs
    if outs['enew'] != want_ev:
        return f'EngVal({v!r},{u1!r}).newEngValInUnits({u2!r}) -> {outs["enew"]}, expected {want_ev}', outs
    if ref[0] != 'ok' and r_c[0] != 'ok' and (e.value != v or e.uom != u1):
        return f'EngVal.convert changed the object although it was refused: {e.value!r} {e.uom!r}', outs
    # arithmetic: the right operand is converted into the units of the left one
    back = ('ok', v) if u1 == u2 else osdd_call(L, L.convert, v, u1, u2)      # value of EngVal(v,u1) in units u2
    import operator
    for name, op in (('+', operator.add), ('-', operator.sub), ('/', operator.truediv), ('<', operator.lt), ('>=', operator.ge)):
        if name == '/' and (back[0] != 'ok' or back[1] == 0.0 or u1 == b'    ' or u2 == b'    '):
            continue
        r = osdd_call(L, op, EV.EngVal(w, u2), EV.EngVal(v, u1))
        if back[0] != 'ok':
            if r[0] != 'units':
                return f'EngVal({w!r},{u2!r}) {name} EngVal({v!r},{u1!r}) -> {r[0]} {r[1]!r}; expected a units error', outs
            continue
        exp = op(w, back[1])
        if r[0] != 'ok':
            return f'EngVal({w!r},{u2!r}) {name} EngVal({v!r},{u1!r}) raised {r[1]}', outs
        got = r[1].value if isinstance(r[1], EV.EngVal) else r[1]
        same = (fbits(got) == fbits(exp)) if isinstance(exp, float) and isinstance(got, float) else (got == exp and type(got) is type(exp))
        if not same:
            return f'EngVal({w!r},{u2!r}) {name} EngVal({v!r},{u1!r}) = {got!r}, expected {exp!r} (= {w!r} {name} convert(v))', outs
    return None, outs


# ------------------------------------------------------------------ entry points

def _finish(ctx):
    n = ctx.stats.get('bitwise_differences_within_rounding_bound', 0)
    if n:
        ctx.note(f'{n} result(s) of the implementation differ in their bits from the binary64 instance of the model but lie within the '
                 'rounding bound of the exact value: the code evaluates the same map with different rounding (allowed by the property)')


def run(ctx):
    ctx.extra['rounding_bound'] = BOUND_TEXT
    ctx.extra['claim_split'] = ('proof: exact laws over Q (identity, round trip, transitivity, dimension/category/unknown-unit refusal, array = map) '
                                'for all values and all entries of the regenerated tables; partial: "to within floating-point rounding" is '
                                'exercised with the stated bound, not proved')
    run_osdd(ctx)
    run_lis(ctx)
    _finish(ctx)


def search(ctx):
    """More of the same oracle (twice the values, every cross-dimension pair) when a proof / the correspondence broke."""
    run_osdd(ctx, boost=True)
    run_lis(ctx, boost=True)
    _finish(ctx)


def replay(ctx, rec):
    import numpy as np
    case = rec['case']
    op = case.get('op', '')
    fx = lambda h: float.fromhex(h)
    if op.startswith('osdd'):
        U, ous = load_osdd()
        by = {o.key: o for o in ous}
        need = [case[k] for k in ('key', 'from', 'via', 'to') if k in case]
        if any(k not in by for k in need):
            return True, f'unit(s) {need} no longer all in the table'
        g = lambda k: by[case[k]]
        if op == 'osdd_scale':
            o = g('key')
            return (o.finite and o.s != 0), f'scale {o.unit.scale!r} offset {o.unit.offset!r}'
        if op == 'osdd_convert':
            v = fx(case['v']); a, b = g('from'), g('to')
            res = osdd_call(U, U.convert, v, a.unit, b.unit)
            bad = check_scalar(res, osdd_exact(Fraction(v), a, b), 'convert')
            return bad is None, bad or f'convert -> {res[1]!r} within the bound'
        if op == 'osdd_roundtrip':
            v = fx(case['v']); a, b = g('from'), g('to')
            res = osdd_call(U, U.convert, v, a.unit, b.unit)
            bad = check_scalar(res, osdd_exact(Fraction(v), a, b), 'convert') or check_composite(U, v, a, b, a, res[1])
            return bad is None, bad or 'round trip within the bound'
        if op == 'osdd_triple':
            bad = check_triple(U, fx(case['v']), g('from'), g('via'), g('to'))
            return bad is None, bad or 'via third unit == direct within the bound'
        if op == 'osdd_array':
            vals = [fx(h) for h in case['vals']]; a, b = g('from'), g('to')
            results = [osdd_call(U, U.convert, v, a.unit, b.unit) for v in vals]
            src = np.array(vals, dtype=np.float64)
            bad, _, _ = check_arrays(U, np, a, b, vals, results, src, src.copy())
            return bad is None, bad or 'array forms agree with the scalar form'
        if op == 'osdd_function':
            v = fx(case['v']); a, b = g('from'), g('to')
            kind, f = osdd_call(U, U.convert_function, a.unit, b.unit)
            if kind != 'ok': return False, f'convert_function raised {f}'
            ok = canon(*osdd_call(U, f, v)) == canon(*osdd_call(U, U.convert, v, a.unit, b.unit))
            return ok, 'convert_function(a,b)(v) vs convert(v,a,b)'
        if op == 'osdd_hold':
            keys = [k for st in case['seq'] for k in (st['from'], st['to'])]
            if any(k not in by for k in keys):
                return True, 'unit(s) no longer all in the table'
            bad = play_hold_arrays(U, np, by, case)[0]
            return bad is None, bad or 'every held result still equals the conversion of its own input; no shared memory'
        if op == 'osdd_layout':
            a, b = g('from'), g('to')
            pool = [fx(h) for h in case['pool']]
            pool_res = [osdd_call(U, U.convert, v, a.unit, b.unit) for v in pool]
            idx = np.array(case['idx'], dtype=np.int64).reshape(tuple(case['shape']))
            bad = check_layout(U, np, a, b, pool, pool_res, None, [set() for _ in pool], case['layout'], idx)[0]
            return bad is None, bad or f'both array forms convert {case["what"]} element-wise'
        if op == 'osdd_refuse':
            v = fx(case['v']); a, b = g('from'), g('to')
            if a.unit.dimension == b.unit.dimension:
                return True, 'the two units now have one dimension'
            bad, r1, r2, r3, r4, _ = check_refusal(U, np, v, a, b)
            return bad is None, bad or f'convert, convert_function, convert_array, convert_array_inplace -> {r1[0]} {r1[1]!r}, array untouched'
    if op.startswith('lis') or op.startswith('engval'):
        L, lus = load_lis()
        from TotalDepth.LIS.core import EngVal as EV
        by = {bhex(l.name): l for l in lus}
        if op == 'lis_mult':
            l = by.get(case['name'])
            return (l is None or (l.finite and l.m != 0)), f'multiplier {getattr(l, "mult", None)!r}'
        if op == 'lis_refuse_str':
            dec = lambda d: d['str'] if 'str' in d else bytes.fromhex(d['bytes'])
            res = osdd_call(L, L.convert, 1.0, dec(case['from']), dec(case['to']))
            return res[0] == 'units', f'convert -> {res[0]} {res[1]!r}'
        un = lambda h: b'' if h == '-' else bytes.fromhex(h)
        if op == 'engval_hold':
            bad = play_hold_engval(L, EV, LisRef(lus), case['start'], case['ops'])
            return bad is None, bad or 'every held EngVal result keeps its value/units; all results are distinct objects'
        if op == 'engval_history':
            pr = case['probes']
            probes = {'units': [bytes.fromhex(h) for h in pr['units']], 'cmp': (fx(pr['cmp'][0]), bytes.fromhex(pr['cmp'][1]))}
            r = play_history(L, EV, LisRef(lus), case['start'], case['ops'], probes)
            return r is None, (r[1] if r else 'every observable after every step equals the reference recomputed from (value, uom)')
        if op in ('lis_refuse', 'engval'):
            u1, u2, v = un(case['from']), un(case['to']), fx(case['v'])
            if op == 'engval':
                bad, _ = check_engval(L, EV, u1, u2, v, fx(case.get('w', '0x1.8p+0')), must_refuse(lus, u1, u2))
                return bad is None, bad or 'EngVal entry points agree with Units.convert'
            k1, k2 = by.get(case['from']), by.get(case['to'])
            if k1 is not None and k2 is not None and k1.cat == k2.cat:
                return True, 'the two units are now in one category'
            res = osdd_call(L, L.convert, v, u1, u2)
            return res[0] == 'units', f'convert -> {res[0]} {res[1]!r}'
        need = [case[k] for k in ('from', 'via', 'to') if k in case]
        if any(k not in by for k in need):
            return True, f'unit(s) {need} no longer all in the table'
        v = fx(case['v']); x, y = by[case['from']], by[case['to']]
        if op == 'lis_convert':
            res = osdd_call(L, L.convert, v, x.name, y.name)
            bad = check_scalar(res, lis_exact(Fraction(v), x, y), 'LIS convert')
            return bad is None, bad or f'convert -> {res[1]!r} within the bound'
        if op in ('lis_roundtrip', 'lis_triple'):
            mid = by[case['via']] if op == 'lis_triple' else y
            end = y if op == 'lis_triple' else x
            res = osdd_call(L, L.convert, v, x.name, mid.name)
            bad = check_scalar(res, lis_exact(Fraction(v), x, mid), 'LIS convert') or lis_composite(L, v, x, mid, end, res[1])
            return bad is None, bad or 'within the bound'
    return True, 'nothing to replay (no concrete failing input was recorded)'


# ------------------------------------------------------------------ array forms on strided / multi-dimensional / empty arrays

def _layouts():
    """(description, shape of the base array, memory order, view function) - the view is what is handed to the code."""
    return [
        ('column frames[:, 2] of a 2-D frame array', (6, 4), 'C', lambda b: b[:, 2]),
        ('a[::2]', (9,), 'C', lambda b: b[::2]),
        ('a[::-1]', (7,), 'C', lambda b: b[::-1]),
        ('a[1::3]', (10,), 'C', lambda b: b[1::3]),
        ('transpose m.T', (3, 5), 'C', lambda b: b.T),
        ('2-D contiguous', (4, 3), 'C', lambda b: b),
        ('3-D contiguous', (2, 3, 4), 'C', lambda b: b),
        ('3-D slice c[:, ::2, 1]', (3, 4, 3), 'C', lambda b: b[:, ::2, 1]),
        ('0-length 1-D', (0,), 'C', lambda b: b),
        ('0-length slice a[3:3]', (6,), 'C', lambda b: b[3:3]),
        ('shape (0, 4)', (0, 4), 'C', lambda b: b),
        ('Fortran-order 2-D', (4, 3), 'F', lambda b: b),
        ('row f[1, :] of a Fortran-order array', (4, 5), 'F', lambda b: b[1, :]),
        ('2-D block m[1:3, ::2]', (4, 6), 'C', lambda b: b[1:3, ::2]),
        ('0-d array', (), 'C', lambda b: b),
        ('1-D contiguous', (5,), 'C', lambda b: b),
        ('reversed column frames[::-1, 0]', (5, 3), 'C', lambda b: b[::-1, 0]),
        ('transpose of a 3-D array', (2, 3, 2), 'C', lambda b: b.transpose(2, 0, 1)),
    ]


def _bits_of(np, x):
    return np.ascontiguousarray(x, dtype=np.float64).reshape(-1).view(np.uint64)


def _same_bits(np, x, y):
    return x.shape == y.shape and np.array_equal(_bits_of(np, x), _bits_of(np, y))


def check_layout(U, np, a, b, pool, pool_res, pool_ok, accepted, li, idx):
    """One array layout: `idx` (ints, shape of the base array) says which pool value sits where.
    Oracle: the copying form returns, and the in-place form leaves in the caller's array, the element-wise scalar conversion
    of the previous content (each element within the rounding bound of the exact value); the argument of the copying form
    and everything of the base array outside the view stay bit-identical.
    Returns (failure text or None, request values, canonical copy result, canonical in-place result)."""
    desc, shape, order, vf = _layouts()[li]
    parr = np.array(pool, dtype=np.float64)
    base = parr[idx] if idx.size else np.zeros(idx.shape, dtype=np.float64)
    base = np.asfortranarray(base) if order == 'F' else np.ascontiguousarray(base)
    if base.shape != idx.shape:                       # ascontiguousarray turns 0-d into 1-d
        base = base.reshape(idx.shape)
    base_prev = base.copy(order='K')
    view = vf(base)
    prev = np.array(view, dtype=np.float64, copy=True)
    which = vf(idx).reshape(-1)                        # pool index of every element of the view, in C order of the view
    req = ','.join(str(int(x)) for x in _bits_of(np, prev)) or '-'
    cf = lambda arr: 'ok ' + (','.join(str(int(x)) for x in _bits_of(np, arr)) or '-')

    def elements(name, got):
        flat = _bits_of(np, got)
        for pos, (k, gb) in enumerate(zip(which, flat)):
            k, gb = int(k), int(gb)
            if gb in accepted[k]:
                continue
            t = check_scalar(('ok', bits_f(gb)), osdd_exact(Fraction(pool[k]), a, b), f'{name} on {desc}, element {pos} (v={pool[k]!r})')
            if t:
                return t
            accepted[k].add(gb)
        return None

    with np.errstate(all='ignore'):
        rc = osdd_call(U, U.convert_array, view, a.unit, b.unit)
    if rc[0] != 'ok':
        return f'convert_array on {desc}: raised {rc[1]}', req, canon(*rc), None
    out = rc[1]
    c_copy = cf(out) if isinstance(out, np.ndarray) or isinstance(out, np.floating) else 'ok ?'
    bad = None
    if not hasattr(out, 'shape') or tuple(out.shape) != tuple(view.shape) or getattr(out, 'dtype', None) != np.float64:
        bad = f'convert_array on {desc}: returned {type(out).__name__} shape {getattr(out, "shape", None)} dtype {getattr(out, "dtype", None)}, expected float64 of shape {view.shape}'
    elif not _same_bits(np, base, base_prev):
        bad = f'convert_array on {desc}: modified its argument'
    else:
        bad = elements('convert_array', np.asarray(out))
    with np.errstate(all='ignore'):
        ri = osdd_call(U, U.convert_array_inplace, view, a.unit, b.unit)
    after = np.array(view, dtype=np.float64, copy=True)
    c_inp = (f'ok {cf(after)[3:]} after {cf(after)[3:]}') if ri[0] == 'ok' else canon(*ri) + ' after ' + cf(after)[3:]
    if bad:
        return bad, req, c_copy, c_inp
    if ri[0] != 'ok':
        return f'convert_array_inplace on {desc}: raised {ri[1]}', req, c_copy, c_inp
    if ri[1] is not None:
        return f'convert_array_inplace on {desc}: returned {type(ri[1]).__name__}, documented None', req, c_copy, c_inp
    bad = elements(f'convert_array_inplace (content of the caller\'s array afterwards)', after)
    if bad:
        if prev.size and _same_bits(np, after, prev) and not _same_bits(np, np.asarray(out), prev):
            bad += ' - the caller\'s array was left unconverted'
        return bad, req, c_copy, c_inp
    chk = base.copy(order='K')
    vf(chk)[...] = prev
    if not _same_bits(np, chk, base_prev):
        return f'convert_array_inplace on {desc}: elements of the base array outside the view were modified', req, c_copy, c_inp
    return None, req, c_copy, c_inp


def run_layouts(ctx, U, np, ous, dims, lean, boost=False):
    rng = ctx.rng
    L = _layouts()
    npairs = ctx.n(1200, 12000) * (2 if boost else 1)
    with_off = [m for m in dims.values() if any(o.has_off for o in m)]
    multi = [m for m in dims.values() if len(m) >= 2]
    lines, meta = [], []
    for n in range(npairs):
        members = rng.choice(with_off) if (n % 5 == 0 and with_off) else rng.choice(multi)
        a, b = rng.choice(members), rng.choice(members)
        if n % 5 == 0 and with_off:
            offs = [o for o in members if o.has_off]
            if rng.random() < 0.7: a = rng.choice(offs)
        pool = gen_values(rng, 6) + [rng.choice(SPECIALS), rng.choice(SPECIALS)]
        pool_res = [osdd_call(U, U.convert, v, a.unit, b.unit) for v in pool]
        accepted = []
        for v, r in zip(pool, pool_res):
            ok = check_scalar(r, osdd_exact(Fraction(v), a, b), 'convert') is None
            accepted.append({fbits(r[1])} if ok else set())
        for li in (range(len(L)) if n % 4 == 0 else rng.sample(range(len(L)), 6)):
            shape = L[li][1]
            size = 1
            for d in shape: size *= d
            idx = np.array([rng.randrange(len(pool)) for _ in range(size)], dtype=np.int64).reshape(shape)
            case = {'op': 'osdd_layout', 'from': a.key, 'to': b.key, 'pool': [v.hex() for v in pool], 'layout': li,
                    'what': L[li][0], 'shape': list(shape), 'idx': [int(x) for x in idx.reshape(-1)]}
            ctx.count('oracle_cases')
            bad, req, c_copy, c_inp = check_layout(U, np, a, b, pool, pool_res, None, accepted, li, idx)
            if bad:
                ctx.fail(case, bad)
            else:
                ctx.nontriv(('layout', li, a.key, b.key))
            lines.append(f'oarr {a.idx} {b.idx} {req}'); meta.append(('osdd_layout_copy', case, c_copy, (lambda bad=bad: bad)))
            if c_inp is not None:
                lines.append(f'oinp {a.idx} {b.idx} {req}'); meta.append(('osdd_layout_inplace', case, c_inp, (lambda bad=bad: bad)))
    rep = lean(lines)
    for (stream, case, impl, recheck), m in zip(meta, rep):
        corr_num(ctx, stream, case, impl, m, recheck)
    ctx.extra['array_layouts'] = [l[0] for l in L]


# ------------------------------------------------------------------ one EngVal object over time (HISTORY streams)

_CMP = {'<': lambda x, y: x < y, '<=': lambda x, y: x <= y, '>': lambda x, y: x > y, '>=': lambda x, y: x >= y,
        '==': lambda x, y: x == y, '!=': lambda x, y: x != y}
DIMLESS = b'    '


class LisRef:
    """Pure reference for LIS conversions: exact value and rounding bound from the table the module holds."""
    def __init__(self, lus):
        self.by = {l.name: l for l in lus}
        self.lus = lus

    def get(self, v, u, target):
        """value v in units u asked in units target: ('ident', v) | ('units',) | ('ok', E, B)"""
        if target == u:
            return ('ident', v)
        x, y = self.by.get(u), self.by.get(target)
        if x is None or y is None or x.cat != y.cat:
            return ('units',)
        ex = lis_exact(Fraction(v), x, y)
        if ex is None:
            return ('units',)
        return ('ok', ex[0], err_bound(ex[1], ex[0], ex[2], ex[3]))


def _within(val, E, B):
    return is_num(val) and abs(Fraction(val) - E) <= B


def gen_history(rng, lus, nsteps):
    """A random history for one EngVal object. Ops are JSON-able lists; the units the object will have are tracked so that
    most operands are convertible (the rest exercise refusals)."""
    cats = {}
    for l in lus: cats.setdefault(l.cat, []).append(l)
    by = {l.name: l for l in lus}
    big = [m for m in cats.values() if len(m) >= 3]
    start_u = rng.choice(rng.choice(big)).name
    start_v = gen_values(rng, 1)[0]
    cur = start_u
    hx = lambda x: x.hex()
    def unit_near(p_other=0.12):
        r = rng.random()
        if r < p_other: return rng.choice(lus).name
        if r < p_other + 0.05: return rng.choice(JUNK_UNITS[:6])
        if cur in by: return rng.choice(cats[by[cur].cat]).name
        return rng.choice(lus).name
    def real(): return rng.uniform(0.5, 2.0) * rng.choice([1, 1, 1, -1])
    ops = []
    for _ in range(nsteps):
        r = rng.random()
        if r < 0.10: op = ['im', hx(real())]
        elif r < 0.18: op = ['id', hx(real())]
        elif r < 0.24: op = ['ia', hx(gen_values(rng, 1)[0])]
        elif r < 0.30: op = ['is', hx(gen_values(rng, 1)[0])]
        elif r < 0.38: op = ['iaE', hx(unit_near()), hx(gen_values(rng, 1)[0])]
        elif r < 0.44: op = ['isE', hx(unit_near()), hx(gen_values(rng, 1)[0])]
        elif r < 0.49: op = ['imE', hx(DIMLESS), hx(real())]
        elif r < 0.53: op = ['idE', hx(DIMLESS), hx(real())]
        elif r < 0.63:
            t = unit_near(); op = ['cv', hx(t)]
            x, y = by.get(cur), by.get(t)
            if t == cur or (x is not None and y is not None and x.cat == y.cat): cur = t
        elif r < 0.69: op = ['sv', hx(gen_values(rng, 1)[0])]
        elif r < 0.72:
            t = rng.choice(rng.choice(big)).name; op = ['su', hx(t)]; cur = t
        elif r < 0.82: op = ['get', hx(unit_near())]
        elif r < 0.86: op = ['new', hx(unit_near())]
        elif r < 0.93: op = ['cmp', rng.choice(list(_CMP)), hx(unit_near(0.05)), hx(gen_values(rng, 1)[0])]
        else: op = ['bin', rng.choice(['+', '-', '*r', '/r']), hx(unit_near(0.05)), hx(gen_values(rng, 1)[0] if rng.random() < 0.7 else real())]
        ops.append(op)
    return {'u': hx(start_u), 'v': start_v.hex()}, ops


def play_history(L, EV, ref: LisRef, start, ops, probes, record=None):
    """Apply ops to ONE EngVal object. After every step every observable (value, uom, getInUnits for the probe units, == and <
    against a probe) is compared with a reference recomputed from the (value, uom) pair alone: exact Fraction arithmetic with
    the rounding bound, and a fresh EngVal(value, uom). Returns (index of the failing step, text) or None."""
    import operator
    unb = bytes.fromhex
    fx = float.fromhex
    e = EV.EngVal(fx(start['v']), unb(start['u']))
    call = lambda fn, *a: osdd_call(L, fn, *a)

    def get_ok(res, r, what):
        if r[0] == 'units':
            return None if res[0] == 'units' else f'{what}: {res[0]} {res[1]!r}; expected a units error'
        if res[0] != 'ok':
            return f'{what}: raised {res[1]}'
        if r[0] == 'ident':
            return None if isinstance(res[1], float) and fbits(res[1]) == fbits(r[1]) else f'{what}: {res[1]!r}, expected the value {r[1]!r} untouched'
        if not _within(res[1], r[1], r[2]):
            return f'{what}: {res[1]!r}, exact {float(r[1])!r} (bound {float(r[2]):.2e}) recomputed from (value, uom)'
        return None

    def observables(step):
        v, u = e.value, e.uom
        if not is_num(v) or not isinstance(u, bytes):
            return f'state is ({v!r}, {u!r})'
        for t in probes['units'] + [u]:
            res = call(e.getInUnits, t)
            bad = get_ok(res, ref.get(v, u, t), f'getInUnits({t!r}) on the object in state ({v!r}, {u!r})')
            if bad: return bad
            fresh = call(EV.EngVal(v, u).getInUnits, t)
            if canon(*res) != canon(*fresh):
                return f'getInUnits({t!r}) = {res[1]!r} on the object, {fresh[1]!r} on a fresh EngVal({v!r}, {u!r})'
            if (e.value, e.uom) != (v, u) and not (e.value != e.value):
                return f'getInUnits({t!r}) changed the state to ({e.value!r}, {e.uom!r})'
        pw, pu = probes['cmp']
        for name in ('==', '<'):
            res = call(_CMP[name], e, EV.EngVal(pw, pu))
            fresh = call(_CMP[name], EV.EngVal(v, u), EV.EngVal(pw, pu))
            if (res[0], res[1] if res[0] == 'ok' else None) != (fresh[0], fresh[1] if fresh[0] == 'ok' else None):
                return f'object {name} EngVal({pw!r},{pu!r}) -> {res}, fresh EngVal({v!r},{u!r}) -> {fresh}'
            bad = cmp_ok(res, name, v, u, pw, pu)
            if bad: return bad
        return None

    def cmp_ok(res, name, v, u, w, u2):
        r = ref.get(w, u2, u)                 # the right operand is brought into the units of the left one
        what = f'EngVal({v!r},{u!r}) {name} EngVal({w!r},{u2!r})'
        if r[0] == 'units':
            return None if res[0] == 'units' else f'{what}: {res[0]} {res[1]!r}; expected a units error'
        if res[0] != 'ok':
            return f'{what}: raised {res[1]}'
        Ec, Bc = (Fraction(r[1]), 0) if r[0] == 'ident' else (r[1], r[2])
        if abs(Fraction(v) - Ec) <= 2 * Bc and Bc != 0:
            return None                        # too close to call within rounding
        want = _CMP[name](Fraction(v), Ec)
        return None if res[1] is want else f'{what}: {res[1]!r}, expected {want} (exact right operand {float(Ec)!r})'

    bad = observables(-1)
    if bad: return -1, 'initial object: ' + bad
    for i, op in enumerate(ops):
        v, u = e.value, e.uom
        kind = op[0]
        exp_u, E, B, refused, same_obj = u, None, None, False, None
        if kind in ('im', 'id', 'ia', 'is'):
            r = fx(op[1])
            fn = {'im': operator.imul, 'id': operator.itruediv, 'ia': operator.iadd, 'is': operator.isub}[kind]
            E = {'im': Fraction(v) * Fraction(r), 'id': Fraction(v) / Fraction(r), 'ia': Fraction(v) + Fraction(r), 'is': Fraction(v) - Fraction(r)}[kind]
            B = U53 * abs(E) + 4 * ETA
            res = call(fn, e, r); same_obj = True
        elif kind in ('iaE', 'isE'):
            u2, w = unb(op[1]), fx(op[2])
            rr = ref.get(w, u2, u)
            res = call(operator.iadd if kind == 'iaE' else operator.isub, e, EV.EngVal(w, u2)); same_obj = True
            if rr[0] == 'units':
                refused = True
            else:
                Ec, Bc = (Fraction(rr[1]), 0) if rr[0] == 'ident' else (rr[1], rr[2])
                E = Fraction(v) + Ec if kind == 'iaE' else Fraction(v) - Ec
                B = Bc * (1 + U53) + U53 * abs(E) + 4 * ETA
        elif kind in ('imE', 'idE'):
            u2, w = unb(op[1]), fx(op[2])
            res = call(operator.imul if kind == 'imE' else operator.itruediv, e, EV.EngVal(w, u2)); same_obj = True
            E = Fraction(v) * Fraction(w) if kind == 'imE' else Fraction(v) / Fraction(w)
            B = U53 * abs(E) + 4 * ETA
        elif kind == 'cv':
            t = unb(op[1])
            rr = ref.get(v, u, t)
            res = call(e.convert, t)
            if rr[0] == 'units': refused = True
            elif rr[0] == 'ident': E, B, exp_u = Fraction(v), 0, t
            else: E, B, exp_u = rr[1], rr[2], t
        elif kind == 'sv':
            e.value = fx(op[1]); res = ('ok', None); E, B = Fraction(fx(op[1])), 0
        elif kind == 'su':
            e.uom = unb(op[1]); res = ('ok', None); E, B, exp_u = Fraction(v), 0, unb(op[1])
        else:
            # ---- reading operations: checked against the state before, which they must leave alone
            E, B = Fraction(v), 0
            if kind == 'get':
                t = unb(op[1]); res = call(e.getInUnits, t)
                bad = get_ok(res, ref.get(v, u, t), f'step {i}: getInUnits({t!r}) in state ({v!r},{u!r})')
            elif kind == 'new':
                t = unb(op[1]); res = call(e.newEngValInUnits, t)
                rr = ref.get(v, u, t)
                val = ('ok', res[1].value) if res[0] == 'ok' else res
                bad = get_ok(val, rr, f'step {i}: newEngValInUnits({t!r}) in state ({v!r},{u!r})')
                if not bad and res[0] == 'ok' and (res[1].uom != t or res[1] is e):
                    bad = f'step {i}: newEngValInUnits({t!r}) returned units {res[1].uom!r} / the same object'
            elif kind == 'cmp':
                name, u2, w = op[1], unb(op[2]), fx(op[3])
                res = call(_CMP[name], e, EV.EngVal(w, u2))
                bad = cmp_ok(res, name, v, u, w, u2)
                if bad: bad = f'step {i}: ' + bad
            else:
                name, u2, w = op[1], unb(op[2]), fx(op[3])
                if name in ('*r', '/r'):
                    res = call(operator.mul if name == '*r' else operator.truediv, e, w)
                    Er = Fraction(v) * Fraction(w) if name == '*r' else Fraction(v) / Fraction(w)
                    rr = ('ok', Er, U53 * abs(Er) + 4 * ETA)
                else:
                    res = call(operator.add if name == '+' else operator.sub, e, EV.EngVal(w, u2))
                    c = ref.get(w, u2, u)
                    if c[0] == 'units': rr = c
                    else:
                        Ec, Bc = (Fraction(c[1]), 0) if c[0] == 'ident' else (c[1], c[2])
                        Er = Fraction(v) + Ec if name == '+' else Fraction(v) - Ec
                        rr = ('ok', Er, Bc * (1 + U53) + U53 * abs(Er) + 4 * ETA)
                val = ('ok', res[1].value) if res[0] == 'ok' and isinstance(res[1], EV.EngVal) else res
                bad = get_ok(val, rr, f'step {i}: EngVal({v!r},{u!r}) {name} ({w!r},{u2!r})')
                if not bad and res[0] == 'ok' and (res[1] is e or res[1].uom != u):
                    bad = f'step {i}: binary {name} returned the same object / units {res[1].uom!r}'
            if bad: return i, bad
            res = ('ok', None)
        # ---- state after the step
        what = f'step {i} {op} from state ({v!r},{u!r})'
        if refused:
            if res[0] != 'units':
                return i, f'{what}: {res[0]} {res[1]!r}; expected a units error'
            if not (isinstance(e.value, float) and fbits(e.value) == fbits(v) and e.uom == u):
                return i, f'{what}: refused, but the state changed to ({e.value!r},{e.uom!r})'
        else:
            if res[0] != 'ok':
                return i, f'{what}: raised {res[1]}'
            if same_obj and res[1] is not e:
                return i, f'{what}: the in-place operator returned another object'
            if e.uom != exp_u:
                return i, f'{what}: units are {e.uom!r}, expected {exp_u!r}'
            if not (is_num(e.value) and abs(Fraction(e.value) - E) <= B):
                return i, f'{what}: value is {e.value!r}, exact {float(E)!r} (bound {float(B):.2e})'
        if record is not None and kind in ('im', 'id', 'ia', 'is', 'iaE', 'isE', 'imE', 'idE', 'cv', 'sv', 'su'):
            record.append((i, v, u, op, e.value, e.uom))
        bad = observables(i)
        if bad:
            return i, f'after step {i} {op}: ' + bad
    return None


def _op_token(op):
    b = lambda h: str(fbits(float.fromhex(h)))
    k = op[0]
    if k in ('im', 'id', 'ia', 'is', 'sv'): return f'{k}:{b(op[1])}'
    if k in ('iaE', 'isE', 'imE', 'idE'): return f'{k}:{op[1] or "-"}:{b(op[2])}'
    if k in ('cv', 'su'): return f'{k}:{op[1] or "-"}'
    return 'ob'


def run_history(ctx, L, EV, lus, lean, boost=False):
    rng = ctx.rng
    ref = LisRef(lus)
    nh = ctx.n(250, 2500) * (2 if boost else 1)
    lines, meta = [], []
    for h in range(nh):
        start, ops = gen_history(rng, lus, rng.choice([12, 25, 40]))
        su = bytes.fromhex(start['u'])
        cat = [l.name for l in lus if l.cat == ref.by[su].cat]
        probes = {'units': [rng.choice(cat), rng.choice(cat), rng.choice(lus).name],
                  'cmp': (gen_values(rng, 1)[0], rng.choice(cat))}
        record = []
        ctx.count('oracle_cases', len(ops) + 1)
        r = play_history(L, EV, ref, start, ops, probes, record)
        if r is not None:
            i, text = r
            ctx.fail({'op': 'engval_history', 'start': start, 'ops': ops[:i + 1],
                      'probes': {'units': [p.hex() for p in probes['units']], 'cmp': [probes['cmp'][0].hex(), probes['cmp'][1].hex()]}}, text)
        else:
            ctx.nontriv(('history', h, start['u'], len(ops)))
        for (i, v, u, op, v2, u2) in record:
            if not (is_num(v) and is_num(v2)): continue
            lines.append(f'ehist {bhex(u)} {fbits(v)} {_op_token(op)}')
            meta.append(({'op': 'engval_step', 'state': [v.hex(), bhex(u)], 'step': op}, f'{fbits(v2)}:{bhex(u2)}'))
        if h == 0:
            ctx.sample({'op': 'engval_history', 'start': start, 'first_ops': ops[:6]})
    rep = lean(lines)
    soft = 0
    for (case, impl), m in zip(meta, rep):
        if m is None: continue
        if impl != m and impl.split(':')[1:] == m.split(':')[1:]:
            soft += 1                      # same units, value differs in bits: the oracle above already bounded it
            ctx.count('bitwise_differences_within_rounding_bound')
            ctx.corr('engval_history_step', case, 'within rounding', 'within rounding')
        else:
            ctx.corr('engval_history_step', case, impl, m)
    ctx.extra['engval_histories'] = nh


# ------------------------------------------------------------------ HOLD streams: results kept while further calls are made

def _build_array(np, pool, li, idx):
    desc, shape, order, vf = _layouts()[li]
    parr = np.array(pool, dtype=np.float64)
    base = parr[idx] if idx.size else np.zeros(idx.shape, dtype=np.float64)
    base = np.asfortranarray(base) if order == 'F' else np.ascontiguousarray(base)
    if base.shape != idx.shape:
        base = base.reshape(idx.shape)
    return base, vf(base), vf(idx).reshape(-1)


def play_hold_arrays(U, np, by, case):
    """k conversions in sequence on arrays of one shape / dtype (mixed units, some on the same input), every result kept.
    Afterwards: every result still equals the element-wise scalar conversion of ITS input (exact value, rounding bound); results
    are distinct arrays sharing no memory with each other or with any input; inputs unchanged; writing into one result changes
    nothing else. The callables of convert_function are held the same way. Returns (failure text or None, [(request, canonical result)])."""
    pool = [float.fromhex(h) for h in case['pool']]
    li = case['layout']
    shape = tuple(_layouts()[li][1])
    inputs = []          # (base, view, which) per distinct input
    for flat in case['inputs']:
        idx = np.array(flat, dtype=np.int64).reshape(shape)
        inputs.append(_build_array(np, pool, li, idx))
    snap = [b.copy(order='K') for b, _, _ in inputs]
    held = []            # (step, a, b, input number, result)
    funcs = []
    desc = _layouts()[li][0]
    for n, st in enumerate(case['seq']):
        a, b = by[st['from']], by[st['to']]
        base, view, which = inputs[st['input']]
        with np.errstate(all='ignore'):
            if st.get('inplace'):
                # an in-place conversion of a private copy of the input, interleaved: must not disturb anything held
                tmp = np.array(view, copy=True)
                r = osdd_call(U, U.convert_array_inplace, tmp, a.unit, b.unit)
                if r[0] != 'ok':
                    return f'step {n}: convert_array_inplace raised {r[1]}', []
                continue
            r = osdd_call(U, U.convert_array, view, a.unit, b.unit)
        if r[0] != 'ok':
            return f'step {n}: convert_array on {desc} raised {r[1]}', []
        if not isinstance(r[1], np.ndarray) and not isinstance(r[1], np.floating):
            return f'step {n}: convert_array returned {type(r[1]).__name__}', []
        held.append((n, a, b, st['input'], r[1]))
        f = osdd_call(U, U.convert_function, a.unit, b.unit)
        if f[0] != 'ok':
            return f'step {n}: convert_function raised {f[1]}', []
        funcs.append((n, a, b, f[1]))
    out = []

    def verify(when, skip=()):
        for k, (n, a, b, inp, res) in enumerate(held):
            if k in skip: continue
            base, view, which = inputs[inp]
            if tuple(np.shape(res)) != tuple(view.shape) or getattr(res, 'dtype', None) != np.float64:
                return f'{when}: result of step {n} has shape {np.shape(res)} dtype {getattr(res, "dtype", None)}'
            for pos, (w, gb) in enumerate(zip(which, _bits_of(np, np.asarray(res)))):
                t = check_scalar(('ok', bits_f(int(gb))), osdd_exact(Fraction(pool[int(w)]), a, b),
                                 f'{when}: held result of step {n} (convert_array {a.key!r}->{b.key!r} on {desc}), element {pos} (v={pool[int(w)]!r})')
                if t:
                    return t + ' - a held result no longer equals the conversion of its own input'
        for m, (base, view, which) in enumerate(inputs):
            if not _same_bits(np, base, snap[m]):
                return f'{when}: input array {m} was modified'
        return None

    bad = verify('after all calls')
    if bad: return bad, out
    for k, (n, a, b, inp, res) in enumerate(held):
        if isinstance(res, np.ndarray):
            flat = _bits_of(np, res)
            out.append((f'oarr {a.idx} {b.idx} ' + (','.join(str(int(x)) for x in _bits_of(np, np.array(inputs[inp][1], copy=True))) or '-'),
                        'ok ' + (','.join(str(int(x)) for x in flat) or '-')))
    for i in range(len(held)):
        for j in range(i + 1, len(held)):
            ri, rj = held[i][4], held[j][4]
            if ri is rj:
                return f'steps {held[i][0]} and {held[j][0]}: convert_array returned the same array object twice', out
            if isinstance(ri, np.ndarray) and isinstance(rj, np.ndarray) and ri.size and np.shares_memory(ri, rj):
                return f'steps {held[i][0]} and {held[j][0]}: the two results share memory', out
        for m, (base, view, which) in enumerate(inputs):
            ri = held[i][4]
            if isinstance(ri, np.ndarray) and (ri is view or ri is base or (ri.size and np.shares_memory(ri, base))):
                return f'step {held[i][0]}: the result shares memory with input array {m}', out
    # the caller owns each result: writing into one must change nothing else
    written = set()
    for k, (n, a, b, inp, res) in enumerate(held):
        if isinstance(res, np.ndarray) and res.size and res.flags.writeable:
            res[...] = 12345.678
            written.add(k)
            bad = verify(f'after writing into the result of step {n}', skip=written)
            if bad: return bad, out
    # the functions made along the way still convert with their own units
    v = pool[0]
    for n, a, b, f in funcs:
        r = osdd_call(U, f, v)
        t = check_scalar(r, osdd_exact(Fraction(v), a, b), f'held convert_function of step {n} ({a.key!r}->{b.key!r}) applied after the others were made')
        if t: return t, out
    return None, out


def run_hold_arrays(ctx, U, np, ous, dims, lean, boost=False):
    rng = ctx.rng
    L = _layouts()
    usable = [i for i, l in enumerate(L)]
    multi = [m for m in dims.values() if len(m) >= 2]
    with_off = [m for m in dims.values() if any(o.has_off for o in m)]
    by = {o.key: o for o in ous}
    lines, meta = [], []
    for n in range(ctx.n(1200, 12000) * (2 if boost else 1)):
        li = rng.choice(usable)
        size = 1
        for d in L[li][1]: size *= d
        pool = gen_values(rng, 6) + [rng.choice(SPECIALS), rng.choice(SPECIALS)]
        ninp = rng.choice([1, 2, 3])
        inputs = [[rng.randrange(len(pool)) for _ in range(size)] for _ in range(ninp)]
        seq = []
        for _ in range(rng.choice([2, 3, 4, 6])):
            members = rng.choice(with_off) if rng.random() < 0.2 else rng.choice(multi)
            a, b = rng.choice(members), rng.choice(members)
            st = {'from': a.key, 'to': b.key, 'input': rng.randrange(ninp)}
            if rng.random() < 0.15: st['inplace'] = True
            seq.append(st)
        case = {'op': 'osdd_hold', 'layout': li, 'what': L[li][0], 'pool': [v.hex() for v in pool], 'inputs': inputs, 'seq': seq}
        ctx.count('oracle_cases')
        bad, out = play_hold_arrays(U, np, by, case)
        if bad:
            ctx.fail(case, bad)
        else:
            ctx.nontriv(('hold', n, li, len(seq)))
        for req, impl in out:
            lines.append(req); meta.append((case, impl, bad))
    for (case, impl, bad), m in zip(meta, lean(lines)):
        corr_num(ctx, 'osdd_hold_copy', case, impl, m, (lambda bad=bad: bad))


def gen_hold_engval(rng, lus):
    cats = {}
    for l in lus: cats.setdefault(l.cat, []).append(l)
    big = [m for m in cats.values() if len(m) >= 3]
    members = rng.choice(big)
    hx = lambda x: x.hex()
    near = lambda: rng.choice(members).name if rng.random() < 0.9 else rng.choice(lus).name
    start = {'u': hx(rng.choice(members).name), 'v': gen_values(rng, 1)[0].hex()}
    ops = []
    for _ in range(rng.choice([3, 5, 8])):
        r = rng.random()
        if r < 0.3: ops.append(['new', hx(near())])
        elif r < 0.4: ops.append(['new', start['u']])
        elif r < 0.7: ops.append(['bin', rng.choice(['+', '-']), hx(near()), gen_values(rng, 1)[0].hex()])
        elif r < 0.85: ops.append(['bin', rng.choice(['*r', '/r', 'r*', 'r-', 'r+']), '', rng.uniform(0.5, 3.0).hex()])
        elif r < 0.93: ops.append(['bin', '*d', hx(DIMLESS), rng.uniform(0.5, 3.0).hex()])
        else: ops.append(['mut', rng.uniform(0.5, 2.0).hex()])          # the source object changes in between
    return start, ops


def play_hold_engval(L, EV, ref: LisRef, start, ops):
    """EngVal-returning operations (newEngValInUnits, + - * /, reflected forms) made in sequence on one source object, every
    result kept. Afterwards each result still has the value/units it was made with (Fraction reference from the source state at
    that moment), results are distinct objects (also from the source and the operands), and mutating one result, or the source,
    changes no other result."""
    import operator
    fx, unb = float.fromhex, bytes.fromhex
    e = EV.EngVal(fx(start['v']), unb(start['u']))
    held = []           # (step, result, value bits at creation, uom, reference ('ok',E,B)|('ident',v))
    operands = []
    for i, op in enumerate(ops):
        v, u = e.value, e.uom
        what = f'step {i} {op} on EngVal({v!r},{u!r})'
        if op[0] == 'mut':
            e *= fx(op[1]); continue
        if op[0] == 'new':
            t = unb(op[1])
            rr = ref.get(v, u, t)
            res = osdd_call(L, e.newEngValInUnits, t)
            exp_u = t
        else:
            name, w = op[1], fx(op[3])
            exp_u = u
            if name in ('+', '-'):
                o = EV.EngVal(w, unb(op[2])); operands.append(o)
                res = osdd_call(L, operator.add if name == '+' else operator.sub, e, o)
                c = ref.get(w, unb(op[2]), u)
                if c[0] == 'units': rr = c
                else:
                    Ec, Bc = (Fraction(c[1]), 0) if c[0] == 'ident' else (c[1], c[2])
                    Er = Fraction(v) + Ec if name == '+' else Fraction(v) - Ec
                    rr = ('ok', Er, Bc * (1 + U53) + U53 * abs(Er) + 4 * ETA)
            elif name == '*d':
                o = EV.EngVal(w, DIMLESS); operands.append(o)
                res = osdd_call(L, operator.mul, e, o)
                Er = Fraction(v) * Fraction(w); rr = ('ok', Er, U53 * abs(Er) + 4 * ETA)
            else:
                fn = {'*r': lambda: e * w, '/r': lambda: e / w, 'r*': lambda: w * e, 'r-': lambda: w - e, 'r+': lambda: w + e}[name]
                res = osdd_call(L, fn)
                Er = {'*r': Fraction(v) * Fraction(w), '/r': Fraction(v) / Fraction(w), 'r*': Fraction(v) * Fraction(w),
                      'r-': Fraction(w) - Fraction(v), 'r+': Fraction(v) + Fraction(w)}[name]
                rr = ('ok', Er, 2 * U53 * abs(Er) + 4 * ETA)          # r- is (e - w) * -1: two roundings at most
        if rr[0] == 'units':
            if res[0] != 'units':
                return f'{what}: {res[0]} {res[1]!r}; expected a units error'
            continue
        if res[0] != 'ok' or not isinstance(res[1], EV.EngVal):
            return f'{what}: {res[0]} {res[1]!r}; expected an EngVal'
        r = res[1]
        if rr[0] == 'ident':
            if not (isinstance(r.value, float) and fbits(r.value) == fbits(rr[1])):
                return f'{what}: value {r.value!r}, expected {rr[1]!r} untouched'
        elif not _within(r.value, rr[1], rr[2]):
            return f'{what}: value {r.value!r}, exact {float(rr[1])!r} (bound {float(rr[2]):.2e})'
        if r.uom != exp_u:
            return f'{what}: units {r.uom!r}, expected {exp_u!r}'
        held.append((i, r, fbits(r.value), r.uom))

    def verify(when, skip=()):
        for k, (i, r, vb, uu) in enumerate(held):
            if k in skip: continue
            if not (isinstance(r.value, float) and fbits(r.value) == vb and r.uom == uu):
                return f'{when}: the result of step {i} {ops[i]} changed from ({bits_f(vb)!r},{uu!r}) to ({r.value!r},{r.uom!r})'
        return None

    bad = verify('after all operations')
    if bad: return bad
    objs = [('the source object', e)] + [(f'an operand', o) for o in operands]
    for k, (i, r, _, _) in enumerate(held):
        for name, o in objs:
            if r is o:
                return f'step {i} {ops[i]} returned {name} instead of a new EngVal'
        for k2 in range(k + 1, len(held)):
            if r is held[k2][1]:
                return f'steps {i} and {held[k2][0]} returned the same EngVal object'
    src = (fbits(e.value), e.uom)
    done = set()
    for k, (i, r, _, _) in enumerate(held):
        r *= 3.0
        r.value = r.value + 1.0
        done.add(k)
        bad = verify(f'after mutating the result of step {i}', skip=done)
        if bad: return bad
        if (fbits(e.value), e.uom) != src:
            return f'mutating the result of step {i} {ops[i]} changed the source object to ({e.value!r},{e.uom!r})'
    return None


def run_hold_engval(ctx, L, EV, lus, boost=False):
    rng = ctx.rng
    ref = LisRef(lus)
    for n in range(ctx.n(1500, 15000) * (2 if boost else 1)):
        start, ops = gen_hold_engval(rng, lus)
        ctx.count('oracle_cases')
        bad = play_hold_engval(L, EV, ref, start, ops)
        if bad:
            ctx.fail({'op': 'engval_hold', 'start': start, 'ops': ops}, bad)
        else:
            ctx.nontriv(('engval_hold', n, start['u'], len(ops)))
