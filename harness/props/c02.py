"""C02 — the RP66V1 index gives random access identical to the sequential read (RP66V1/core/pFile.py, pIndex.py)."""
import hashlib, io, json, os, pickle, types

from gen import rp66

CLAIM = {
 'text': ('Lean 4 theorems (lean/TD/TD/C02/Props.lean) about a branch-for-branch model of FileRead.'
          'iter_logical_record_positions / get_file_logical_data and pIndex.LogicalRecordIndex in which the mutable reader '
          'state (file cursor, visible_record, logical_record_segment_header) is threaded explicitly through every fetch: '
          'get_stateless (for ALL reader states and ALL histories, runHist b st hist = hist.map (fetch b)), get_slice (the '
          'fetch of record k of an encoded file with (off, len) returns (payload.drop off).take len; len < 0 => drop '
          'only), get_full_eq_iter (the default fetch equals what the sequential read yields for that record) and '
          'touched_subset (every read of a fetch lies inside the visible records holding the record), positions_encode '
          '(the position scan of a conformant file yields exactly the entries that follow from the layout), positions_count '
          '(one entry per record) and positions_entry (entry k carries the positions at which get_slice / touched_subset '
          'fetch, the attribute byte of the first segment, the record type and the summed body length); for the index OBJECT: '
          'obj_history_pure (any history of enter / exit / re-enter / fetch / pickle round trip / re-scan / sequential '
          'iteration on one or two index objects sharing a file object answers as a state-free run: a function of the '
          'bytes alone), reindex_pure, obj_entries_good, reindex_encode (every enter in every history of a conformant '
          'file yields one entry per record), multi_object_pure (any number of objects alive at once, on the same or '
          'different files: each object answers as the state-free run of its own operations on its own file; operations '
          'of the other objects are no-ops for it). Every run ties the '
          'model to the source: files from the Lean spec encoder, LogicalRecordIndex on a read-counting BytesIO, histories '
          'of 20-200 fetches on ONE index object (repetitions, permutations, runs, reversed order) over an offset/length '
          'grid (segment boundaries +-1, beyond the end, negative lengths), plus a malformed stream. Proof is the right '
          'level: the quantifier is over all layouts, all (offset, length) pairs and all fetch histories.'),
 'note': ('Trusted: Lean kernel; model<->code correspondence on the cases of the run; io.BytesIO and Python slicing are '
          'modelled, not verified. Requires the F5 repair of the multi-segment slice arithmetic.'),
 'technique': ('Lean 4 proof (reader state threaded explicitly; induction on the segment list) + model-implementation '
               'correspondence with a read-counting file object'),
 'design_ref': 'DESIGN.md section 6 C02',
}
RULE = ('files: random storage unit label + 1..12 records (payload 0..3 visible records long) + random conformant layout '
        '(small visible record caps and small cuts are common), bytes from the Lean spec encoder; per file one history of '
        'fetches on one LogicalRecordIndex. Oracle per fetch (implementation alone): result == Python slice of the payload '
        'given to the encoder, every read inside one of the visible records holding the record; per file: index entries == '
        'positions/type/kind/length implied by the layout, full fetches == sequential read. A fetch is non-trivial when '
        'the record has >= 2 segments or the slice is a proper sub-range; distinct by (SHA-1 of the file, k, offset, '
        'length). Object histories: per file 12..70 operations (E enter, X exit, F fetch, S re-scan, I sequential read, P '
        'pickle round trip on a path-based index) on index objects A and B over one file object; after EVERY step every '
        'entered index must hold exactly one entry per record with the layout positions; distinct by (file, operation sequence). '
        'Several objects: 1-2 files, 2-4 readers / indexes alive at once (a quarter sharing one file object), '
        'generators consumed lazily one item at a time (sequential read, position scan, visible records; two lazy readers '
        'interleaved) with fetches through other objects in between, aimed at other visible records than the one a '
        'suspended reader is in; every item and fetch must be that of the own file of the object, every index is checked '
        'after every step. '
        'Malformed files / bogus positions are correspondence only.')
ASSUMPTIONS = ['io.BytesIO read/seek/tell are modelled as list drop/take with an explicit cursor',
               'the F5 fix is present in get_file_logical_data (index_to = index_from + (length - bytes_read))',
               'a file holds at least one logical record (records >= 1)']
TRUSTED = ['modelled, not verified: io.BytesIO.read/seek/tell; Python slicing by[a:b] (transcribed as pySlice); pickle '
           '(an index survives a round trip as its entries list + a fresh, un-entered FileRead)']
ANCHOR_FILES = ['src/TotalDepth/RP66V1/core/pFile.py', 'src/TotalDepth/RP66V1/core/pIndex.py',
                'src/TotalDepth/RP66V1/core/File.py', 'src/TotalDepth/RP66V1/core/Index.py']


class NonTerminating(Exception):
    """more reads than any terminating walk of the file can make (malformed stream only: a segment length of 0 makes the
    scan re-read the same header for ever; the model then answers MODEL-FUEL)"""


class CountIO(io.BytesIO):
    """A BytesIO that records (position, bytes returned) of every read."""
    def __init__(self, b, limit=0):
        super().__init__(b); self.reads = []; self.limit = limit

    def read(self, n=-1):
        p = self.tell(); r = super().read(n); self.reads.append((p, len(r)))
        if self.limit and len(self.reads) > self.limit: raise NonTerminating()
        return r


def _impl():
    from TotalDepth.RP66V1.core import File, Index
    return File, Index


hx = lambda b: bytes(b).hex() or '-'
sha = lambda b: hashlib.sha1(b).hexdigest()[:16]


def norm(reads):
    """the set of bytes read as sorted maximal ranges lo-hi (hi exclusive)"""
    out = []
    for lo, hi in sorted((p, p + n) for p, n in reads if n > 0):
        if out and lo <= out[-1][1]: out[-1][1] = max(out[-1][1], hi)
        else: out.append([lo, hi])
    return ','.join(f'{a}-{b}' for a, b in out) or '-'


def canon_model(r):
    if r.startswith('err:MODEL-FUEL'): return 'err:NonTerminating'
    f = r.split(' ')
    if len(f) != 3 or f[0] != 'ok': return r
    return f'ok {f[1]} ' + norm([tuple(map(int, x.split('+'))) for x in f[2].split(',')] if f[2] != '-' else [])


def ents(l):
    return ';'.join(f'{e.position.vr_position},{e.position.lrsh_position},{e.description.attributes.attributes},'
                    f'{e.description.lr_type},{e.description.ld_length}' for e in l) or '-'


KEPT = []      # FileLogicalData objects returned by the fetches of the history being played (inspected again afterwards)


def fetch_canon(f, call):
    """run one fetch on the implementation: (canonical string, bytes or None, error class or None, reads)"""
    f.reads = []
    try:
        obj = call(); got = obj.logical_data.bytes
        KEPT.append(obj)
        return f'ok {hx(got)} {norm(f.reads)}', got, None, f.reads
    except Exception as e:
        return 'err:' + type(e).__name__, None, type(e).__name__, f.reads


# ------------------------------------------------------------------ the property oracle (implementation alone)

def oracle_fetch(payload, vrs, off, ln, got, err, reads):
    if off < 0:
        return None if err == 'ExceptionFileRead' else f'negative offset {off}: expected ExceptionFileRead, got {err or "a result"}'
    if got is None:
        return f'fetch raised {err}'
    want = payload[off:] if ln < 0 else payload[off:off + ln]
    if got != want:
        return f'fetch returned {len(got)} bytes {got[:24].hex()}.., the payload slice is {len(want)} bytes {want[:24].hex()}..'
    for p, n in reads:
        if n and not any(vp <= p and p + n <= vp + vl for vp, vl in vrs):
            return f'read of {n} bytes at {p} is outside the visible records {vrs} holding the record'
    return None


def play(sul, records, layout, history, b=None):
    """ONE LogicalRecordIndex on the file; index oracle, the history with the fetch oracle, full fetch == sequential read.
    Returns (index entries, [canonical string per fetch], [(i, detail)] oracle failures; i = -1: index / sequential)."""
    File, Index = _impl()
    b = rp66.encode_rp66(sul, records, layout) if b is None else b
    tab = rp66.segment_table(records, layout)
    f = CountIO(b); outs = []; bad = []
    idx = Index.LogicalRecordIndex(f)
    try:
        idx.__enter__()
    except Exception as e:
        return f'err:{type(e).__name__} -', outs, [(-1, f'indexing a conformant file raised {e!r}')]
    es = idx.lr_pos_desc
    if len(es) != len(records):
        bad.append((-1, f'{len(es)} index entries for {len(records)} records'))
    for k, (e, (eflr, typ, _), t) in enumerate(zip(es, records, tab)):
        got = (e.description.lr_type, e.description.attributes.is_eflr, e.position.vr_position, e.position.lrsh_position, e.description.ld_length)
        want = (typ, eflr, t['vr_pos'], t['lrsh_pos'], sum(s[2] for s in t['segs']))
        if got != want:
            bad.append((-1, f'index entry {k}: (type, is_eflr, vr_pos, lrsh_pos, ld_length) = {got}, written {want}')); break
    del KEPT[:]; kept = []
    for i, (k, off, ln) in enumerate(history):
        n0 = len(KEPT)
        s, got, err, reads = fetch_canon(f, lambda: idx.get_file_logical_data(k, off, ln))
        outs.append(s)
        d = oracle_fetch(records[k][2], tab[k]['vrs'], off, ln, got, err, reads)
        if d: bad.append((i, f'fetch #{i} (record {k}, offset {off}, length {ln}): {d}'))
        elif len(KEPT) > n0 and off >= 0 and len(kept) < 300: kept.append((i, KEPT[-1], k, off, ln))
    # aliasing: the objects returned earlier, inspected only now (after all the later fetches on the same reader)
    for i, o, k, off, ln in kept:
        eflr, typ, p = records[k]
        want = (eflr, typ, layout[k][0]['enc'], p[off:] if ln < 0 else p[off:off + ln], tab[k]['vr_pos'], tab[k]['lrsh_pos'])
        try: got = (o.lr_is_eflr, o.lr_type, o.lr_is_encrypted, o.logical_data.bytes, o.position.vr_position, o.position.lrsh_position)
        except Exception as e: got = repr(e)
        if got != want:
            bad.append((len(history) - 1, f'the object returned by fetch #{i} (record {k}, offset {off}, length {ln}), inspected after the '
                                          f'whole history, says (is_eflr, type, encrypted, vr_pos, lrsh_pos, {len(want[3])} bytes) = '
                                          f'{got[:3] + got[4:] if isinstance(got, tuple) else got}, written {want[:3] + want[4:]}')); break
    try:
        full = [idx.get_file_logical_data(k).logical_data.bytes for k in range(len(idx))]
        with File.FileRead(io.BytesIO(b)) as fr:
            seq = [r.logical_data.bytes for r in fr.iter_logical_records()]
        if full != seq: bad.append((-1, f'full fetches differ from the sequential read ({len(full)} vs {len(seq)} records)'))
    except Exception as e:
        bad.append((-1, f'full fetch / sequential read raised {e!r}'))
    e = ents(es)
    idx.__exit__(None, None, None)
    return 'ok ' + e, outs, bad


# ------------------------------------------------------------------ cases, shrinking

def sul_json(s): return {k: (v.hex() if isinstance(v, bytes) else v) for k, v in s.items()}
def sul_unjson(s): return {k: (bytes.fromhex(v) if isinstance(v, str) else v) for k, v in s.items()}


def mk_case(sul, records, layout, history):
    return {'op': 'fetch', 'sul': sul_json(sul), 'records': [[e, t, p.hex()] for e, t, p in records],
            'layout': rp66.layout_to_json(layout), 'history': [list(h) for h in history]}


def un_case(c):
    return (sul_unjson(c['sul']), [(e, t, bytes.fromhex(p)) for e, t, p in c['records']], rp66.layout_from_json(c['layout']),
            [tuple(h) for h in c['history']])


def repack(layout):
    """a sub-list of a layout made conformant again: visible records start where the original started them (and at the
    first segment kept); their lengths are recomputed from the segments kept"""
    lay = [[dict(d) for d in ds] for ds in layout]
    flat = [d for ds in lay for d in ds]
    starts = [j for j, d in enumerate(flat) if j == 0 or d['vr'] is not None]
    for a, z in zip(starts, starts[1:] + [len(flat)]):
        flat[a]['vr'] = 4 + sum(rp66.seg_len(d) for d in flat[a:z])
    return lay


def shrink(sul, records, layout, history, i, detail):
    """bounded: the failing fetch alone, then fewer records; the smallest candidate that still fails the oracle"""
    hist = [tuple(h) for h in history[:i + 1]] if i >= 0 else []
    best = (mk_case(sul, records, layout, hist), detail)
    cands = []
    if hist:
        k = hist[-1][0]
        cands.append((records, layout, hist[-1:]))
        for lo, hi in ((k, k + 1), (k, len(records)), (0, k + 1)):
            lay = repack(layout[lo:hi])
            sub = [(h[0] - lo, h[1], h[2]) for h in hist if lo <= h[0] < hi]
            cands += [(records[lo:hi], lay, sub[-1:]), (records[lo:hi], lay, sub)]
    else:
        cands = [(records[k:k + 1], repack(layout[k:k + 1]), []) for k in range(min(len(records), 12))]
    for recs, lay, h in cands:
        if not rp66.conformant(recs, lay): continue
        try: bad = play(sul, recs, lay, h)[2]
        except Exception: continue
        c = mk_case(sul, recs, lay, h)
        if bad and len(json.dumps(c)) < len(json.dumps(best[0])): best = (c, bad[0][1])
    return best


def report(ctx, sul, records, layout, history, bad, size):
    """one oracle failure per file (the first); shrinking effort bounded per run"""
    if not bad: return
    i, detail = bad[0]
    if ctx.stats['oracle_failures'] < 8 or size > 4096:
        case, detail = shrink(sul, records, layout, history, i, detail)
    else:
        case = mk_case(sul, records, layout, history[:i + 1] if i >= 0 else [])
    ctx.fail(case, detail)


# ------------------------------------------------------------------ generators

def gen_file(rng, big=False):
    sul = rp66.random_sul(rng)
    if big:
        recs = rp66.random_records(rng, rng.randint(1, 5), rng.choice([4000, 10000, 20000]))
        lay = rp66.random_layout(rng, recs, vr_cap=rng.choice([512, 1024, 4096, 8192, 16382, 16384]))
    else:
        cap = rng.choice([20, 24, 36, 64, 128, 256]) if rng.random() < 0.5 else None
        mp = rng.choice([12, 40, 100, 300]) if cap is None else min(300, rng.choice([cap // 2, cap, 2 * cap, 3 * cap]))
        recs = rp66.random_records(rng, rng.randint(1, 12), mp)
        lay = rp66.random_layout(rng, recs, vr_cap=cap, small_cuts=rng.random() < 0.6)
    return sul, recs, lay


def cuts_of(ds):
    out = [0]
    for d in ds: out.append(out[-1] + d['n'])
    return out


def gen_slice(rng, L, cuts):
    r = rng.random()
    if r < 0.12: return 0, -1
    if r < 0.13: return -rng.randint(1, 3), rng.choice([-1, 0, 5])
    c, c2 = rng.choice(cuts), rng.choice(cuts)
    off = max(0, rng.choice([0, 0, 1, L // 2, L - 1, L, L + 1, L + 7, c - 1, c, c + 1, rng.randint(0, L + 3)]))
    ln = rng.choice([-1, -1, -2, -100, 0, 1, 2, L, L + 1, L + 9, L - off, L - off - 1, L - off + 1, c2 - off, c2 - off - 1,
                     c2 - off + 1, rng.randint(0, L + 3)])
    return off, (ln if ln >= 0 or ln in (-1, -2, -100) else 0)


def gen_history(rng, records, layout, nf):
    n = len(records); mode = rng.choice(['rand', 'perm', 'runs', 'rev']); ks = []
    while len(ks) < nf:
        if mode == 'rand': ks.append(rng.randrange(n))
        elif mode == 'perm': p = list(range(n)); rng.shuffle(p); ks += p
        elif mode == 'runs': ks += [rng.randrange(n)] * rng.randint(2, 6)
        else: ks += list(range(n - 1, -1, -1))
    hist = []
    for k in ks[:nf]:
        if hist and rng.random() < 0.12: hist.append(rng.choice(hist))      # the same fetch again later in the history
        else: hist.append((k,) + gen_slice(rng, len(records[k][2]), cuts_of(layout[k])))
    return hist


def features(ctx, fid, records, layout, tab, history):
    seen = set()
    for k, off, ln in history:
        L = len(records[k][2]); ns = len(layout[k]); cu = cuts_of(layout[k])
        if ns >= 2: ctx.count('multi_segment_fetch')
        if len(tab[k]['vrs']) >= 2: ctx.count('multi_vr_fetch')
        if off > L or (ln >= 0 and off + ln > L): ctx.count('beyond_end')
        if ln == 0: ctx.count('zero_length')
        if ln < 0 and off > 0: ctx.count('negative_length_with_offset')
        if ln < -1: ctx.count('other_negative_length')
        if off < 0: ctx.count('negative_offset')
        if (k, off, ln) in seen: ctx.count('repeated_fetch')
        if ns >= 2 and ln >= 0 and 0 <= off and off + ln <= cu[-2]: ctx.count('fetch_skips_tail')
        seen.add((k, off, ln))
        if off >= 0 and (ns >= 2 or (0 < L and (off > 0 or 0 <= ln < L))): ctx.nontriv((fid, k, off, ln))
    ctx.count('fetches', len(history)); ctx.count('oracle_cases', len(history) + 2)


# ------------------------------------------------------------------ well-formed stream

def stage(ctx, cases):
    """cases: (sul, records, layout, history); file bytes from the Lean spec encoder; correspondence + oracle"""
    spec = ctx.lean(['spec ' + rp66.enc_request(s, r, l)[4:] for s, r, l, _ in cases])
    req, done = [], []
    for (sul, recs, lay, hist), sp in zip(cases, spec):
        tab = rp66.segment_table(recs, lay)
        py = rp66.encode_rp66(sul, recs, lay)
        spans = ','.join(f'{min(v[0] for v in t["vrs"])}-{max(v[0] + v[1] for v in t["vrs"])}' for t in tab)
        f = sp.split(' ')
        mine, theirs = f'ok {py.hex()} {spans}', (' '.join([f[0], f[1], f[3]]) if len(f) == 4 else sp)
        ctx.corr('encoder', None if mine == theirs else mk_case(sul, recs, lay, []), mine, theirs)
        b = bytes.fromhex(f[1]) if mine == theirs else py
        e, outs, bad = play(sul, recs, lay, hist, b)
        ctx.corr('spec_positions', None if len(f) == 4 and 'ok ' + f[2] == e else mk_case(sul, recs, lay, []), e,
                 'ok ' + f[2] if len(f) == 4 else sp)
        report(ctx, sul, recs, lay, hist, bad, len(b))
        features(ctx, sha(b), recs, lay, tab, hist)
        qs = [f'{tab[k]["vr_pos"]},{tab[k]["lrsh_pos"]},{off},{ln}' for k, off, ln in hist]
        req += ['positions ' + b.hex()] + (['hist ' + b.hex() + ' ' + ';'.join(qs)] if qs else [])
        done.append((sul, recs, lay, hist, b, e, outs, qs))
    rep = iter(ctx.lean(req))
    for sul, recs, lay, hist, b, e, outs, qs in done:
        m = next(rep)
        ctx.corr('positions', None if m == e else mk_case(sul, recs, lay, []), e, m)
        if not qs: continue
        ms = next(rep).split('|')
        if len(ms) != len(outs): ms = ms + ['(missing)'] * (len(outs) - len(ms))
        for i, (o, m) in enumerate(zip(outs, ms)):
            m = canon_model(m)
            ctx.corr('fetch', None if o == m else dict(mk_case(sul, recs, lay, hist[:i + 1]), requests=qs[:i + 1]), o, m)
    return done



# ------------------------------------------------------------------ object-level histories (enter / exit / re-enter / pickle)

def index_oracle(es, records, tab):
    """implementation alone: one entry per record, each with the positions / type / kind / length the layout implies"""
    if len(es) != len(records):
        return f'{len(es)} index entries for {len(records)} logical records'
    for k, (e, (eflr, typ, _), t) in enumerate(zip(es, records, tab)):
        got = (e.description.lr_type, e.description.attributes.is_eflr, e.position.vr_position, e.position.lrsh_position, e.description.ld_length)
        want = (typ, eflr, t['vr_pos'], t['lrsh_pos'], sum(x[2] for x in t['segs']))
        if got != want:
            return f'index entry {k}: (type, is_eflr, vr_pos, lrsh_pos, ld_length) = {got}, written {want}'
    return None


def gen_ops(rng, records, layout, n, path_based):
    """a history of operations on index objects A (and B, sharing A's file object): E enter, X exit, F fetch, S re-scan and
    I sequential iteration on the same FileRead, P pickle round trip (path based only).  Kept inside what the classes
    support: a path-based reader is not re-entered after exit (that raises ValueError: seek of closed file)."""
    cuts = {k: cuts_of(ds) for k, ds in enumerate(layout)}
    ent = {'A': False, 'B': False}; ops = []
    objs = ['A'] if path_based else ['A', 'A', 'B']
    while len(ops) < n:
        o = rng.choice(objs); r = rng.random()
        if not ent[o]:
            if r < 0.7: ops.append((o, 'E')); ent[o] = True
            elif r < 0.8: ops.append((o, 'F', rng.randrange(len(records)), 0, -1))             # IndexError / AttributeError
            elif r < 0.85 and not path_based: ops.append((o, 'X'))
            elif r < 0.9: ops.append((o, rng.choice('SI')))
            continue
        if r < 0.55:
            k = rng.randrange(len(records)); off, ln = gen_slice(rng, len(records[k][2]), cuts[k])
            ops.append((o, 'F', k, max(off, 0), ln))
        elif r < 0.67: ops.append((o, 'E'))                                                   # enter again without exit
        elif r < 0.80 and not path_based: ops.append((o, 'X')); ent[o] = False
        elif r < 0.80 and path_based: ops.append((o, 'P')); ent[o] = False
        elif r < 0.90: ops.append((o, 'S'))
        else: ops.append((o, 'I'))
    return ops


def ops_request(ops):
    return ';'.join(f'{o[0]}:{o[1]}' + (','.join(map(str, o[2:])) if o[1] == 'F' else '') for o in ops)


def play_obj(sul, records, layout, ops, b=None, path=None):
    """run the history on the implementation; returns ([canonical string per op], [(i, detail)] oracle failures).
    Oracle (implementation alone) after EVERY step: every entered index object has exactly the entries the layout
    implies; every fetch is the payload slice; a re-scan / sequential read gives the entries / records written."""
    File, Index = _impl()
    b = rp66.encode_rp66(sul, records, layout) if b is None else b
    tab = rp66.segment_table(records, layout)
    if path is not None:
        with open(path, 'wb') as fh: fh.write(b)
    f = None if path is not None else CountIO(b)
    src = path if path is not None else f
    idx = {'A': Index.LogicalRecordIndex(src), 'B': Index.LogicalRecordIndex(src)}
    ent = {'A': False, 'B': False}; outs = []; bad = []
    for i, op in enumerate(ops):
        o, c = op[0], op[1]; x = idx[o]; d = None
        try:
            if c == 'E':
                x.__enter__(); ent[o] = True; s = 'ok ' + ents(x.lr_pos_desc)
            elif c == 'X':
                x.__exit__(None, None, None); ent[o] = False; s = 'ok'
            elif c == 'P':
                y = pickle.loads(pickle.dumps(x))
                if ent[o]: x.__exit__(None, None, None)
                idx[o] = y; ent[o] = False; s = 'ok'
            elif c == 'S':
                s = 'ok ' + ents(list(x.rp66v1_file.iter_logical_record_positions()))
                if ent[o]: d = index_oracle(list(x.rp66v1_file.iter_logical_record_positions()), records, tab)
            elif c == 'I':
                got = [(r.lr_is_eflr, r.lr_type, r.logical_data.bytes) for r in x.rp66v1_file.iter_logical_records()]
                s = 'ok ' + (';'.join(f"{'E' if e else 'I'},{t},{hx(p)}" for e, t, p in got) or '-')
                if ent[o] and got != list(records): d = f'sequential read on the indexed reader gave {len(got)} records, written {len(records)}'
            else:
                k, off, ln = op[2:]
                if f is not None:
                    s, got, err, reads = fetch_canon(f, lambda: x.get_file_logical_data(k, off, ln))
                else:
                    try: got, err, reads = x.get_file_logical_data(k, off, ln).logical_data.bytes, None, []
                    except Exception as e: got, err = None, type(e).__name__
                    s = f'ok {hx(got)}' if err is None else 'err:' + err
                if ent[o]: d = oracle_fetch(records[k][2], tab[k]['vrs'], off, ln, got, err, reads if f is not None else [])
        except Exception as e:
            s = 'err:' + type(e).__name__
            if c in 'EXP' or ent[o]: d = f'{c} on index object {o} raised {e!r}'
        outs.append(s)
        if d is None:
            for n_, y in idx.items():
                if ent[n_]:
                    d = index_oracle(y.lr_pos_desc, records, tab)
                    if d: d = f'index object {n_} after step {i} ({ops_request([op])}): {d}'; break
        if d: bad.append((i, f'step #{i} {ops_request([op])}: {d}')); break
    for n_, y in idx.items():
        try:
            if ent[n_]: y.__exit__(None, None, None)
        except Exception: pass
    return outs, bad


def obj_case(sul, records, layout, ops, path_based):
    return dict(mk_case(sul, records, layout, []), op='object', ops=[list(o) for o in ops], path_based=path_based)


def shrink_obj(ctx, sul, records, layout, ops, path_based, i, detail):
    """bounded: history up to the failing step, then greedily without each earlier operation, then the first record only"""
    path = os.path.join(ctx.scratch, 'shrink.dlis') if path_based else None
    fails = lambda recs, lay, os_: (play_obj(sul, recs, lay, os_, path=path)[1] or [None])[0]
    ops = list(ops[:i + 1]); j = 0; tries = 0
    while j < len(ops) - 1 and tries < 80:
        cand = ops[:j] + ops[j + 1:]; tries += 1
        r = fails(records, layout, cand)
        if r: ops, detail = cand, r[1]
        else: j += 1
    one = [(o[0], o[1], 0, o[3], o[4]) if o[1] == 'F' else o for o in ops]
    lay1 = repack(layout[:1])
    if rp66.conformant(records[:1], lay1):
        r = fails(records[:1], lay1, one)
        if r: records, layout, ops, detail = records[:1], lay1, one, r[1]
    return obj_case(sul, records, layout, ops, path_based), detail


def stage_obj(ctx, n_mem, n_path):
    """object-level histories: correspondence with the model's `obj` run + the oracle after every step"""
    rng = ctx.rng; req = []; done = []
    for j in range(n_mem + n_path):
        path_based = j >= n_mem
        sul, recs, lay = gen_file(rng)
        while sum(4 * (d['vr'] is not None) + rp66.seg_len(d) for ds in lay for d in ds) > 3000:
            sul, recs, lay = gen_file(rng)
        ops = gen_ops(rng, recs, lay, rng.randint(12, 70), path_based)
        b = rp66.encode_rp66(sul, recs, lay)
        outs, bad = play_obj(sul, recs, lay, ops, b, os.path.join(ctx.scratch, 'obj.dlis') if path_based else None)
        ctx.count('oracle_cases', len(outs)); ctx.count('object_histories'); ctx.count('object_ops', len(outs))
        for o in ops[:len(outs)]: ctx.count('obj_op_' + o[1])
        seen = set()
        for o in ops[:len(outs)]:
            if o[1] == 'E':
                if o[0] in seen: ctx.count('obj_reenter')
                seen.add(o[0])
        if bad:
            if ctx.stats['oracle_failures'] < 6:
                case, detail = shrink_obj(ctx, sul, recs, lay, ops, path_based, *bad[0])
            else:
                case, detail = obj_case(sul, recs, lay, ops[:bad[0][0] + 1], path_based), bad[0][1]
            ctx.fail(case, detail)
        else:
            ctx.nontriv(('object', sha(b), ops_request(ops)))
        req.append('obj ' + b.hex() + ' ' + ops_request(ops[:len(outs)]))
        done.append((sul, recs, lay, ops, path_based, outs))
    for (sul, recs, lay, ops, path_based, outs), m in zip(done, ctx.lean(req)):
        ms = m.split('|')
        if len(ms) != len(outs): ms = ms + ['(missing)'] * (len(outs) - len(ms))
        for i, (o, mm, op) in enumerate(zip(outs, ms, ops)):
            if op[1] == 'F':
                mm = canon_model(mm)
                if path_based and mm.startswith('ok '): mm = ' '.join(mm.split(' ')[:2])      # no read counting on a real file
            ctx.corr('object', None if o == mm else obj_case(sul, recs, lay, ops[:i + 1], path_based), o, mm)
    if done:
        sul, recs, lay, ops, path_based, outs = done[0]
        ctx.sample({'op': 'object', 'ops': ops_request(ops[:12]), 'results': [o[:60] for o in outs[:12]], 'records': len(recs)})


# ------------------------------------------------------------------ several objects alive at once, lazily stepped generators

def expected_lists(records, layout):
    """per file, from the generator alone: L records, P index entries, V visible records, and the visible record a lazy
    sequential reader is in after it yielded record j"""
    tab = rp66.segment_table(records, layout)
    L = [f"{'E' if e else 'I'},{t},{hx(p)}" for e, t, p in records]
    P = [f"{x['vr_pos']},{x['lrsh_pos']},{rp66.attr_byte(e, True, len(ds) == 1, ds[0])},{t},{sum(q[2] for q in x['segs'])}"
         for (e, t, _), ds, x in zip(records, layout, tab)]
    vrs = []
    for x in tab:
        for v in x['vrs']:
            if v not in vrs: vrs.append(v)
    return {'L': L, 'P': P, 'V': [f'{a},{b}' for a, b in vrs], 'tab': tab, 'last_vr': [x['vrs'][-1] for x in tab]}


def gen_multi(rng):
    """1-2 files, 2-4 objects (lazy readers R = FileRead, indexes I = LogicalRecordIndex; some share one file object), and
    an interleaving: `N` = next() on a reader's lazily consumed generator (L iter_logical_records, P
    iter_logical_record_positions, V iter_visible_records), `F` = fetch through an index, preferably a record lying in
    other visible records than the one a suspended reader is in."""
    files = []
    for _ in range(rng.choice([1, 1, 2])):
        while True:
            recs = rp66.random_records(rng, rng.randint(2, 9), rng.choice([10, 40, 120]))
            lay = rp66.random_layout(rng, recs, vr_cap=rng.choice([20, 24, 36, 64, 128]), p_flags=rng.choice([0.0, 0.3]),
                                     small_cuts=rng.random() < 0.4)
            if sum(rp66.seg_len(d) for ds in lay for d in ds) < 2500: break
        files.append((rp66.random_sul(rng), recs, lay))
    kinds = rng.choice(['RI', 'RI', 'RRI', 'RII', 'RR', 'RIRI', 'IRI'])
    objs = []
    for j, k in enumerate(kinds):
        fi = rng.randrange(len(files))
        share = next((q for q in range(j) if objs[q][1] == fi), None) if rng.random() < 0.25 else None
        objs.append((k, fi, share))
    exp = [expected_lists(r, l) for _, r, l in files]
    at = {}                                           # reader -> (generator kind, items yielded so far)
    steps = []
    readers = [j for j, o in enumerate(objs) if o[0] == 'R']; indexes = [j for j, o in enumerate(objs) if o[0] == 'I']
    for _ in range(rng.randint(10, 60)):
        if indexes and rng.random() < 0.5:
            o = rng.choice(indexes); fi = objs[o][1]; recs = files[fi][1]
            cand = list(range(len(recs)))
            live = [(r, g) for r, g in at.items() if g[0] == 'L' and 0 < g[1] <= len(files[objs[r][1]][1])]
            if live and rng.random() < 0.75:          # land somewhere else than where a suspended reader is
                r, g = rng.choice(live); cur = exp[objs[r][1]]['last_vr'][g[1] - 1]
                far = [k for k in cand if cur not in exp[fi]['tab'][k]['vrs']]
                cand = far or cand
            k = rng.choice(cand); Lk = len(recs[k][2])
            off, ln = (0, -1) if rng.random() < 0.5 else (rng.randint(0, Lk), rng.choice([-1, 0, 1, Lk, rng.randint(0, Lk + 2)]))
            steps.append(('F', o, k, off, ln))
        elif readers:
            o = rng.choice(readers)
            g = at.get(o) or (rng.choice('LLLPV'), 0)
            steps.append(('N', o, g[0]))
            n = len(exp[objs[o][1]][g[0]])
            at[o] = None if g[1] >= n else (g[0], g[1] + 1)
            if at[o] is None: del at[o]
    return files, objs, steps


def play_multi(files, objs, steps):
    """run the interleaving on the implementation; ([canonical string per step], (i, detail) or None).  Oracle
    (implementation alone): every item a lazy generator yields is the next item of ITS file, it ends exactly after the
    last one, every fetch is the payload slice of ITS file, and after every step every index holds exactly its file's
    entries."""
    File, Index = _impl()
    exp = [expected_lists(r, l) for _, r, l in files]
    bts = [rp66.encode_rp66(*f) for f in files]
    bios, inst = [], []
    for k, fi, share in objs:
        bio = bios[share] if share is not None else io.BytesIO(bts[fi])
        bios.append(bio)
        x = File.FileRead(bio) if k == 'R' else Index.LogicalRecordIndex(bio)
        x.__enter__(); inst.append(x)
    gens, outs = {}, []
    canon = {'L': lambda r: f"{'E' if r.lr_is_eflr else 'I'},{r.lr_type},{hx(r.logical_data.bytes)}",
             'P': lambda e: ents([e]), 'V': lambda v: f'{v.position},{v.length}'}
    for i, st in enumerate(steps):
        o = st[1]; fi = objs[o][1]; d = None
        try:
            if st[0] == 'N':
                if o not in gens:
                    fr = inst[o]
                    gens[o] = [st[2], 0, {'L': fr.iter_logical_records, 'P': fr.iter_logical_record_positions,
                                          'V': fr.iter_visible_records}[st[2]]()]
                g = gens[o]; want = exp[fi][g[0]]
                try:
                    s = canon[g[0]](next(g[2])); g[1] += 1
                    w = want[g[1] - 1] if g[1] <= len(want) else 'end'
                except StopIteration:
                    s = 'end'; w = want[g[1]] if g[1] < len(want) else 'end'; del gens[o]
                if s != w:
                    d = f'item {g[1] if s != "end" else "after the last"} of the lazily consumed {g[0]} generator of object {o} is {s[:80]}, its file has {w[:80]}'
            else:
                _, _, k, off, ln = st
                p = files[fi][1][k][2]
                got = inst[o].get_file_logical_data(k, off, ln).logical_data.bytes
                s = 'ok ' + hx(got)
                if got != (p[off:] if ln < 0 else p[off:off + ln]):
                    d = f'fetch of record {k} (offset {off}, length {ln}) through object {o} returned {len(got)} bytes {got[:16].hex()}.., written slice differs'
        except Exception as e:
            s = 'err:' + type(e).__name__; d = f'raised {e!r}'
            gens.pop(o, None)
        outs.append(s)
        if d is None:
            for j, (k, fj, _) in enumerate(objs):
                if k == 'I':
                    d = index_oracle(inst[j].lr_pos_desc, files[fj][1], exp[fj]['tab'])
                    if d: d = f'index object {j}: {d}'; break
        if d: return outs, (i, f'step #{i} {st}: {d}')
    return outs, None


def multi_case(files, objs, steps):
    return {'op': 'multi', 'files': [mk_case(s, r, l, []) for s, r, l in files], 'objects': [list(o) for o in objs],
            'steps': [list(s) for s in steps]}


def un_multi(c):
    return ([un_case(f)[:3] for f in c['files']], [tuple(o) for o in c['objects']], [tuple(s) for s in c['steps']])


def shrink_multi(files, objs, steps, i, detail):
    steps = list(steps[:i + 1]); j = 0; tries = 0
    while j < len(steps) - 1 and tries < 120:
        cand = steps[:j] + steps[j + 1:]; tries += 1
        try: r = play_multi(files, objs, cand)[1]
        except Exception: r = None
        if r: steps, detail = cand, r[1]
        else: j += 1
    return multi_case(files, objs, steps), detail


def stage_multi(ctx, n):
    rng = ctx.rng; done = []; req2, req1 = [], []
    for _ in range(n):
        files, objs, steps = gen_multi(rng)
        outs, bad = play_multi(files, objs, steps)
        ctx.count('oracle_cases', len(outs)); ctx.count('multi_histories'); ctx.count('multi_steps', len(outs))
        ctx.count('multi_objects', len(objs)); ctx.count('multi_two_files', len(files) == 2)
        ctx.count('multi_lazy_steps', sum(1 for s in steps[:len(outs)] if s[0] == 'N'))
        if bad:
            case, detail = shrink_multi(files, objs, steps, *bad) if ctx.stats['oracle_failures'] < 6 else (multi_case(files, objs, steps[:bad[0] + 1]), bad[1])
            ctx.fail(case, detail)
        else:
            ctx.nontriv(('multi', sha(b''.join(rp66.encode_rp66(*f) for f in files)), str(steps)))
        for (sul, recs, lay) in files:
            b = rp66.encode_rp66(sul, recs, lay)
            req2.append('positions ' + b.hex()); req1.append('rdr ' + b.hex() + ' V*;L*')
        done.append((files, objs, steps, outs))
    m2 = iter(ctx.lean(req2)); m1 = iter(ctx.lean(req1, name='C01'))
    for files, objs, steps, outs in done:
        mod = []
        for f in files:
            pz = next(m2); vl = next(m1).split('|')
            mod.append({'P': pz.split(' ')[1].split(';') if pz.startswith('ok ') else [pz],
                        'V': vl[0].split(' ')[1].split(';') if vl[0].startswith('ok ') else [vl[0]],
                        'L': (vl[1].split(' ')[1].split(';') if vl[1].startswith('ok ') else [vl[1]]) if len(vl) > 1 else ['?']})
        cnt = {}
        for i, (st, o) in enumerate(zip(steps, outs)):
            fi = objs[st[1]][1]
            if st[0] == 'N':
                g = cnt.setdefault(st[1], [st[2], 0]); lst = mod[fi][g[0]]
                m = lst[g[1]] if g[1] < len(lst) else 'end'
                g[1] += 1
                if m == 'end' or o == 'end' or o.startswith('err:'): cnt.pop(st[1], None)
            else:
                p = files[fi][1][st[2]][2]; off, ln = st[3], st[4]
                m = 'ok ' + hx(p[off:] if ln < 0 else p[off:off + ln])      # the model's fetch is get_slice: checked per file by the fetch stream
            ctx.corr('multi', None if o == m else multi_case(files, objs, steps[:i + 1]), o[:300], m[:300])
    if done:
        files, objs, steps, outs = done[0]
        ctx.sample({'op': 'multi', 'objects': [list(o) for o in objs], 'steps': [list(s) for s in steps[:10]], 'results': [o[:40] for o in outs[:10]]})

# ------------------------------------------------------------------ malformed stream (correspondence only)

def damaged(rng, b, tab):
    vrs = sorted({v for t in tab for v in t['vrs']}); segs = [s for t in tab for s in t['segs']]
    put = lambda p, bs: b[:p] + bytes(bs) + b[p + len(bs):]
    for p, L in vrs:
        for d in range(4): yield 'trunc_vr', b[:p + d]
        for v in (b'\xff\x00', b'\x00\x00', b'\xff\x02', b'\x01\xff'): yield 'vr_version', put(p + 2, v)
        for v in (0, 19, 20, 16385, 65535, L + 1, L - 1, L + 2, L - 2, L + 4, L - 4, L + 16):
            if 0 <= v < 65536: yield 'vr_len', put(p, rp66.u16(v))
    for p, sl, _ in segs:
        for d in (0, 1, 2, 3, 4, 5, sl // 2, sl - 1): yield 'trunc_seg', b[:p + d]
        for v in (0, 1, 2, 3, 4, 8, 15, 17, sl + 2, sl - 2, sl + 1, sl + 16, 40000, 65535): yield 'lrsh_len', put(p, rp66.u16(v))
        for bit in (0x40, 0x20, 0x01, 0x04, 0x02, 0x10, 0x80, 0x08): yield 'attr', put(p + 2, [b[p + 2] ^ bit])
        yield 'pad_byte', put(p + sl - 1, [rng.choice([0, 1, 200, 255])])
    for p in (0, 3, 4, 8, 9, 14, 15, 19): yield 'sul', put(p, [rng.choice([0, 32, 48, 65, 10])])
    for n in (0, 1, 79, 80, 81, 83, 84, 87): yield 'short', b[:n]


def bogus(rng, b, tab):
    """(vr_pos, lrsh_pos) pairs an index user should never pass"""
    n = len(b)
    for t in tab:
        v, l = t['vr_pos'], t['lrsh_pos']; u = rng.choice(tab)
        yield from [(v + 1, l), (max(0, v - 1), l), (v + 4, l), (max(0, v - 4), l), (v, l + 1), (v, l - 1), (v, l + 4), (v, l - 4),
                    (v, l + 5), (v, l + 2), (v, n + 3), (v, n), (v, n - 2), (n, l), (n - 3, l), (n + 10, n + 14), (l, v), (0, l),
                    (50, l), (50, 54), (76, l), (79, l), (v, u['lrsh_pos']), (u['vr_pos'], l), (v, t['segs'][-1][0])]


def impl_scan(File, b):
    """entries yielded by iter_logical_record_positions before it ended, and how it ended"""
    out, st = [], 'ok'
    try:
        fr = File.FileRead(CountIO(b, 4 * len(b) + 100)); fr._enter()
        for e in fr.iter_logical_record_positions(): out.append(e)
    except NonTerminating:
        return 'err:NonTerminating'
    except Exception as err:
        st = 'err:' + type(err).__name__
    return f'{st} {ents(out)}'


def impl_hist(ctx, File, b, qs):
    """a history of position fetches on ONE FileRead; None when the reader cannot be opened"""
    f = CountIO(b, 4 * len(b) + 100); fr = File.FileRead(f)       # the limit is per fetch (reads are reset)
    try: fr._enter()
    except Exception: return None
    outs = []
    for v, l, off, ln in qs:
        pos = types.SimpleNamespace(vr_position=v, lrsh_position=l)
        s, _, err, _ = fetch_canon(f, lambda: fr.get_file_logical_data(pos, off, ln))
        if err: ctx.count('err_' + err)
        outs.append(s)
    return outs


def malformed(ctx, nfiles):
    File, _ = _impl(); rng = ctx.rng
    req, exp = [], []
    for _ in range(nfiles):
        sul = rp66.random_sul(rng)
        sul['ident'] = sul['ident'][:30] + b'\x00\x40\xff\x01' + sul['ident'][34:]     # a visible record header at 50 (< 80)
        recs = rp66.random_records(rng, rng.randint(1, 4), rng.choice([12, 40, 100]))
        lay = rp66.random_layout(rng, recs, vr_cap=rng.choice([20, 24, 36, 64, None]), small_cuts=rng.random() < 0.6)
        b = rp66.encode_rp66(sul, recs, lay); tab = rp66.segment_table(recs, lay)
        good = [(t['vr_pos'], t['lrsh_pos']) + gen_slice(rng, len(r[2]), cuts_of(ds)) for t, r, ds in zip(tab, recs, lay)]
        bq = [(v, l) + rng.choice([(0, -1), (0, -1), (1, 3), (0, 0), (2, -1)]) for v, l in bogus(rng, b, tab)]
        mix = bq + good; rng.shuffle(mix)
        todo = [('bogus_pos', b, mix)]
        for kind, d in damaged(rng, b, tab):
            todo.append((kind, d, None))
            if rng.random() < 0.3:
                q = good + rng.sample(bq, 3); rng.shuffle(q); todo.append((kind, d, q))
        for kind, d, q in todo:
            if q is None:
                s = impl_scan(File, d)
                if s.startswith('err:'): ctx.count('err_' + s[4:].split(' ')[0])
                req.append('positions ' + hx(d)); exp.append((kind, d, None, s))
            else:
                outs = impl_hist(ctx, File, d, q)
                if outs is None or not d: continue
                req.append('hist ' + d.hex() + ' ' + ';'.join('%d,%d,%d,%d' % x for x in q)); exp.append((kind, d, q, outs))
    for (kind, d, q, want), m in zip(exp, ctx.lean(req)):
        ctx.count('malformed_' + kind)
        if q is None:
            m = canon_model(m) if m.startswith('err:MODEL-FUEL') else m
            ctx.corr('malformed', None if m == want else {'op': 'positions', 'kind': kind, 'file': d.hex()}, want, m)
            continue
        ms = m.split('|'); ms += ['(missing)'] * (len(want) - len(ms))
        for i, (o, r) in enumerate(zip(want, ms)):
            r = canon_model(r)
            ctx.corr('malformed_fetch', None if o == r else {'op': 'hist', 'kind': kind, 'file': d.hex(), 'requests': q[:i + 1]}, o, r)


# ------------------------------------------------------------------ entry points

def gen_cases(ctx, n_small, n_big):
    rng = ctx.rng; out = []
    for j in range(n_small + n_big):
        sul, recs, lay = gen_file(rng, big=j >= n_small)
        size = 80 + sum(4 * (d['vr'] is not None) + rp66.seg_len(d) for ds in lay for d in ds)
        nf = rng.randint(20, 200) if size < 4096 else rng.randint(5, 20)
        out.append((sul, recs, lay, gen_history(rng, recs, lay, nf)))
    return out


def gen_grid(ctx, n):
    """all (offset, length) in 0..L+2 x -1..L+2 for small multi-segment records, shuffled, on one index object"""
    rng = ctx.rng; out = []
    while len(out) < n:
        L = rng.randint(1, 40)
        pre = rp66.random_records(rng, rng.randint(0, 1), 12); k = len(pre)
        recs = pre + [(rng.random() < 0.5, rng.randrange(256), bytes(rng.randrange(256) for _ in range(L)))]
        recs += rp66.random_records(rng, rng.randint(0, 1), 12)
        lay = rp66.random_layout(rng, recs, vr_cap=rng.choice([20, 24, 36, 64, None]), small_cuts=True)
        if len(lay[k]) < 2: continue
        hist = [(k, o, l) for o in range(L + 3) for l in range(-1, L + 3)]
        rng.shuffle(hist)
        out.append((rp66.random_sul(rng), recs, lay, hist))
    return out


def run(ctx):
    cases = gen_cases(ctx, ctx.n(220, 2200), ctx.n(10, 100))
    shown = 0
    for a in range(0, len(cases), 400):
        for sul, recs, lay, hist, b, e, outs, qs in stage(ctx, cases[a:a + 400]):
            if shown < 4 and len(b) < 400 and len(outs) == len(hist) and any(len(lay[h[0]]) >= 2 and h[1] > 0 for h in hist):
                i = next(i for i, h in enumerate(hist) if len(lay[h[0]]) >= 2 and h[1] > 0)
                ctx.sample({'op': 'fetch', 'file': b.hex(), 'index': e, 'record': hist[i][0], 'segments': len(lay[hist[i][0]]),
                            'offset': hist[i][1], 'length': hist[i][2], 'position_in_history': i, 'result_and_bytes_read': outs[i]})
                shown += 1
    stage_obj(ctx, ctx.n(160, 1600), ctx.n(50, 500))
    stage_multi(ctx, ctx.n(400, 4000))
    malformed(ctx, ctx.n(25, 250))
    if ctx.tier == 'thorough':
        grid = gen_grid(ctx, 300)
        for a in range(0, len(grid), 100): stage(ctx, grid[a:a + 100])
        ctx.extra['exhaustive_scope'] = ('all (offset, length) in 0..L+2 x -1..L+2 on %d multi-segment records with L <= 40 '
                                         '(%d fetches); the file space itself is sampled' % (len(grid), sum(len(g[3]) for g in grid)))
    ctx.count('files', len(cases))


def replay(ctx, rec):
    case = rec.get('case') or {}
    if case.get('op') == 'multi':
        files, objs, steps = un_multi(case)
        outs, bad = play_multi(files, objs, steps)
        if bad:
            return False, bad[1]
        return True, f'{len(steps)} interleaved step(s) on {len(objs)} objects over {len(files)} file(s): every yielded item and fetch is that of its own file'
    if case.get('op') == 'object' and case.get('records'):
        sul, recs, lay, _ = un_case(case)
        ops = [tuple(o) for o in case['ops']]
        outs, bad = play_obj(sul, recs, lay, ops, path=os.path.join(ctx.scratch, 'replay.dlis') if case.get('path_based') else None)
        if bad:
            return False, bad[0][1]
        return True, f'{len(ops)} operation(s) {ops_request(ops)}: every entered index has one entry per record, fetches equal the payload slices'
    if case.get('op') != 'fetch' or not case.get('records'):
        return True, 'nothing to replay (no concrete failing input was recorded)'
    sul, recs, lay, hist = un_case(case)
    e, outs, bad = play(sul, recs, lay, hist)
    if bad:
        return False, '; '.join(d for _, d in bad[:3])
    return True, f'index {e}; {len(hist)} fetch(es) equal the payload slices, reads inside the visible records; last: {outs[-1] if outs else "-"}'


def search(ctx):
    """oracle only (no model): more files x histories"""
    for sul, recs, lay, hist in gen_cases(ctx, ctx.n(3000, 6000), ctx.n(30, 60)):
        b = rp66.encode_rp66(sul, recs, lay)
        report(ctx, sul, recs, lay, hist, play(sul, recs, lay, hist, b)[2], len(b))
        ctx.count('oracle_cases', len(hist) + 2); ctx.count('search_files')
    for j in range(ctx.n(1500, 3000)):
        sul, recs, lay = gen_file(ctx.rng); pb = j % 4 == 0
        ops = gen_ops(ctx.rng, recs, lay, ctx.rng.randint(12, 70), pb)
        outs, bad = play_obj(sul, recs, lay, ops, path=os.path.join(ctx.scratch, 'search.dlis') if pb else None)
        ctx.count('oracle_cases', len(outs))
        if bad: ctx.fail(*shrink_obj(ctx, sul, recs, lay, ops, pb, *bad[0]))
