"""C19 (c) — the LIS/LAS plotter TotalDepth.PlotLogs.PlotLogPasses driven on generated files.

LIS: files written to ctx.scratch with internal FILM/PRES records (no LgFormat): FILM tables of 1..4 films in every
order, of which EVERY subset has nothing to plot for a log pass (no PRES row with that DEST, or its OUTP channels are not
in the DFSR); one or two log passes per file with different channel sets.  The set of (log pass, film) plots written
must be exactly the films that have data for that pass (model op `plotsel`; oracle: the generator's own bookkeeping),
independent of the order of the FILM table; every SVG well-formed with its curve points inside view box and margins.

LAS: a .las file plotted with a list of LgFormats (-x) of which a subset has no curve in the file.
"""
import io, itertools, logging, math, os, random, re, types

from props import c19_svg

FILM_IDS = [b'1   ', b'2   ', b'3   ', b'4   ', b'5   ', b'A   ', b'B   ', b'D   ']   # single characters: a DEST like b'12  ' means films 1 and 2
GCODS = [(b'E20 ', b'-4--'), (b'EEE ', b'----'), (b'E2E ', b'-2--'), (b'E4E ', b'-4--'), (b'EEB ', b'----')]
DSCAS = [b'D200', b'D500', b'D40 ', b'S5  ', b'DM  ']
CHANS = [b'GR  ', b'SP  ', b'CALI', b'ILD ', b'NPHI', b'RHOB', b'DT  ', b'SFLU']
GHOSTS = [b'XX0 ', b'XX1 ', b'ZZ9 ']      # OUTP channels that are never recorded
LINSC = [(0.0, 150.0), (-80.0, 20.0), (0.45, -0.15), (6.0, 16.0), (140.0, 40.0), (1.95, 2.95)]
LOGSC = [(0.2, 2000.0), (2000.0, 0.2), (1.0, 1000.0)]
TRACS = [b'T1  ', b'T2  ', b'T3  ', b'T23 ', b'LHT1', b'RHT1']


class _Vals:
    def __init__(self, v): self.v = v
    def val(self, f, s=0): return self.v[f]


def _tbl(name, rows):
    from TotalDepth.LIS.core import RepCode
    b = bytearray(b'"\x00' + b'IA\x04\x00TYPE    ' + name)
    for row in rows:
        for k, (mn, val) in enumerate(row):
            typ = b'\x00' if k == 0 else b'E'
            if isinstance(val, bytes):
                b += typ + b'A\x04\x00' + mn + b'    ' + val
            else:
                b += typ + b'D\x04\x00' + mn + b'    ' + RepCode.writeBytes(val, 68)
    return bytes(b)


def build_lis_case(rng, nfilms, nodata_mask, npasses):
    """returns a JSON-able spec; spec['passes'][p]['status'][film index] in 'data' | 'no_pres' | 'no_chan'"""
    films = rng.sample(FILM_IDS, nfilms)
    spec = {'op': 'plotlogs', 'input': 'LIS', 'seed': rng.randrange(1 << 30), 'passes': []}
    for p in range(npasses):
        mask = nodata_mask if p == 0 else rng.randrange(1 << nfilms)
        chans = rng.sample(CHANS, rng.randint(1, 4))
        status, pres = [], []
        for k in range(nfilms):
            if not (mask >> k) & 1:
                st = 'data'
            else:
                st = rng.choice(['no_pres', 'no_chan'])
            status.append(st)
        if all(s == 'no_pres' for s in status):
            status[rng.randrange(nfilms)] = 'no_chan'        # a PRES table needs at least one row
        for k, st in enumerate(status):
            outs = []
            if st == 'data':
                outs = [rng.choice(chans) for _ in range(rng.randint(1, 3))]
                if rng.random() < 0.3:
                    outs.append(rng.choice(GHOSTS))
            elif st == 'no_chan':
                outs = [rng.choice(GHOSTS + [c for c in CHANS if c not in chans] or GHOSTS) for _ in range(rng.randint(1, 2))]
            for o in outs:
                grad = rng.random() < 0.25
                l, r = rng.choice(LOGSC if grad else LINSC)
                pres.append({'outp': o.decode(), 'dest': films[k].decode(), 'trac': rng.choice(TRACS).decode(),
                             'mode': 'GRAD' if grad else rng.choice(['SHIF', 'WRAP', 'NB  ']), 'l': l, 'r': r})
        rng.shuffle(pres)
        filmrows = [{'mnem': f.decode(), 'gc': rng.randrange(len(GCODS)), 'dsca': rng.choice(DSCAS).decode()} for f in films]
        spec['passes'].append({'films': filmrows, 'pres': pres, 'chans': [c.decode() for c in chans], 'status': status,
                               'frames': rng.choice([9, 17, 30]), 'x0': float(rng.choice([1000, 5000, 2500]))})
    return spec


def write_lis(spec, path):
    from TotalDepth.LIS.core import LogiRec, LisGen
    rng = random.Random(spec['seed'])
    data = bytearray()
    for ps in spec['passes']:
        # one logical file (header ... trailer) per log pass, each with its own FILM and PRES table
        data.extend(LisGen.retSinglePr(LisGen.FileHeadTailDefault.lrBytesFileHead))
        film = [[(b'MNEM', f['mnem'].encode()), (b'GCOD', GCODS[f['gc']][0]), (b'GDEC', GCODS[f['gc']][1]), (b'DEST', b'PF1 '),
                 (b'DSCA', f['dsca'].encode())] for f in ps['films']]
        pres = [[(b'MNEM', ('C%02d ' % k).encode()), (b'OUTP', r['outp'].encode()), (b'STAT', b'ALLO'), (b'TRAC', r['trac'].encode()),
                 (b'CODI', b'LLIN'), (b'DEST', r['dest'].encode()), (b'MODE', r['mode'].encode()), (b'FILT', 0.5),
                 (b'LEDG', r['l']), (b'REDG', r['r'])] for k, r in enumerate(ps['pres'])]
        data.extend(LisGen.retPrS(_tbl(b'FILM', film)))
        data.extend(LisGen.retPrS(_tbl(b'PRES', pres)))
        n = ps['frames']
        ebs = LogiRec.EntryBlockSet()
        ebs.setEntryBlock(LogiRec.EntryBlock(LogiRec.EB_TYPE_FRAME_SIZE, 1, 66, 4 * (len(ps['chans']) + 1)))
        ebs.setEntryBlock(LogiRec.EntryBlock(LogiRec.EB_TYPE_FRAME_SPACE, 1, 68, 0.5))
        ebs.setEntryBlock(LogiRec.EntryBlock(LogiRec.EB_TYPE_FRAME_SPACE_UNITS, 4, 65, b'FEET'))
        ch = []
        for c in ps['chans']:
            sc = [(r['l'], r['r']) for r in ps['pres'] if r['outp'] == c] or [(0.0, 100.0)]
            l, r = sc[0]
            vals = [(l * (r / l) ** rng.uniform(-0.5, 1.5)) if (l > 0 and r > 0 and l != 0.45) else l + (r - l) * rng.uniform(-1.5, 2.5) for _ in range(n)]
            if rng.random() < 0.4:
                vals[rng.randrange(n)] = -999.25
            ch.append(LisGen.Channel(LisGen.ChannelSpec(c.encode(), b'ServID', b'ServOrdN', b'    ', 45310011, 256, 4, 1, 68), _Vals(vals)))
        g = LisGen.LogPassGen(ebs, ch, xStart=ps['x0'], xRepCode=68, xNoise=None)
        data.extend(LisGen.retPrS(g.lrBytesDFSR()))
        for f in range(0, n, 8):
            data.extend(LisGen.retPrS(g.lrBytes(f, min(8, n - f))))
        data.extend(LisGen.retSinglePr(LisGen.FileHeadTailDefault.lrBytesFileTail))
    with open(path, 'wb') as fh:
        fh.write(bytes(data))


def check_plot_file(path, fails, what):
    """well-formed SVG, curve points inside the view box, the left/right margins and the top/bottom margins"""
    from lxml import etree
    try:
        root = etree.parse(path).getroot()
    except etree.XMLSyntaxError as e:
        fails.append(f'{what}: SVG not well-formed: {e}'); return 0
    if root.tag != c19_svg.SVG + 'svg':
        fails.append(f'{what}: root element {root.tag}'); return 0
    try:
        vb = [float(t) for t in root.get('viewBox').split()]
        assert len(vb) == 4 and vb[0] == 0 and vb[1] == 0
    except Exception:
        fails.append(f'{what}: bad viewBox {root.get("viewBox")!r}'); return 0
    pts = c19_svg.curve_points(path)
    m = 0.25 * c19_svg.UPI
    for (x, y) in pts:
        if not (math.isfinite(x) and math.isfinite(y)) or not (m - 0.07 <= x <= vb[2] - m + 0.07) or not (m - 0.12 <= y <= vb[3] - m + 0.12):
            fails.append(f'{what}: curve point ({x},{y}) outside the margins of the view box {vb[2]}x{vb[3]}'); break
    return len(pts)


def _opts(lgformats=()):
    return types.SimpleNamespace(recurse=False, keepGoing=True, LgFormat=list(lgformats), apiHeader=False, LgFormat_min=0, scale=0)


def run_lis_case(spec, scratch):
    """returns (fails, observed set, expected set, stats)"""
    logging.disable(logging.CRITICAL)
    from TotalDepth import PlotLogs
    fails = []
    d = os.path.join(scratch, 'pl_%d' % spec['seed'])
    os.makedirs(os.path.join(d, 'in'), exist_ok=True)
    fin = os.path.join(d, 'in', 'GEN.LIS'); fout = os.path.join(d, 'out', 'GEN.LIS')
    write_lis(spec, fin)
    expected = {(p, ps['films'][k]['mnem'].strip()) for p, ps in enumerate(spec['passes']) for k, st in enumerate(ps['status']) if st == 'data'}
    try:
        plp = PlotLogs.PlotLogPasses(fin, fout, _opts())
    except Exception as e:
        fails.append(f'PlotLogPasses raised {type(e).__name__}: {str(e)[:200]}')
        return fails, None, expected, {}
    info = plp.plotLogInfo
    outdir = os.path.dirname(fout)
    files = sorted(f for f in os.listdir(outdir)) if os.path.isdir(outdir) else []
    observed = set()
    npts = 0
    for f in files:
        m = re.fullmatch(r'GEN\.LIS_(\d{4})_(.+)\.svg', f)
        if not m:
            fails.append(f'unexpected output file {f!r}'); continue
        key = (int(m.group(1)), m.group(2))
        observed.add(key)
        npts += check_plot_file(os.path.join(outdir, f), fails, f'plot of log pass {key[0]} film {key[1]}')
    if info.lisFileCntr != 1:
        fails.append(f'the generated LIS file was not processed as LIS (lisFileCntr={info.lisFileCntr}): a plot failed inside PlotLogPasses')
    if info.logPassCntr != len(spec['passes']):
        fails.append(f'{info.logPassCntr} log passes reported for a file with {len(spec["passes"])}')
    if observed != expected:
        miss = sorted(expected - observed); extra = sorted(observed - expected)
        fails.append(f'plots written {sorted(observed)} but the films with data are {sorted(expected)}'
                     + (f'; missing (log pass, film) {miss}' if miss else '') + (f'; unexpected {extra}' if extra else ''))
    elif info.plotCntr != len(expected):
        fails.append(f'PlotLogInfo reports {info.plotCntr} plots, {len(expected)} written')
    return fails, observed, expected, {'plotlogs_svg_points': npts, 'plotlogs_plots': len(observed)}


# ------------------------------------------------------------------------------------------------ LAS with -x LgFormats

LAS_FORMATS = ['Triple_Combo', 'HDT', 'Sonic_3Track.xml', 'Natural_GR_Spectrometry_3Track.xml', 'Pulsed_Neutron_3Track.xml',
               'Micro_Resistivity_3Track.xml', 'Formation_Test']


def format_outputs(uid):
    from TotalDepth.util.plot import FILMCfgXML, PRESCfgXML
    fc = FILMCfgXML.FilmCfgXMLRead()
    pc = PRESCfgXML.PresCfgXMLRead(fc, uid)
    return [o.pStr(strip=True) for o in pc.outpChIDs(fc[uid].name)]


def all_format_outputs():
    """{uid: [output names]} for every built-in LgFormat that has curves"""
    from TotalDepth.util.plot import FILMCfgXML, PRESCfgXML
    fc = FILMCfgXML.FilmCfgXMLRead()
    out = {}
    for uid in sorted(fc.uniqueIdS()):
        try:
            pc = PRESCfgXML.PresCfgXMLRead(fc, uid)
            out[uid] = [o.pStr(strip=True) for o in pc.outpChIDs(fc[uid].name)]
        except KeyError:
            pass                      # blank formats without curves
    return out


def alt_table():
    """LASConstants.LGFORMAT_LAS read from the source under test: {format channel name: [alternate LAS mnemonics]}"""
    from TotalDepth.LAS.core import LASConstants
    return {k: list(v) for k, v in LASConstants.LGFORMAT_LAS.items()}


def build_las_alt_cases(rng, outs_of, table, thorough):
    """LAS files whose curves are (a) only alternates, (b) a mix, (c) only exact names, (d) neither — for every built-in
    format that has channels with alternates; every (channel, alternate) pair of the table that some format uses is the
    ONLY curve of at least one file."""
    specs = []
    def add(fmts, curves, kind):
        specs.append({'op': 'plotlogs', 'input': 'LAS', 'seed': rng.randrange(1 << 30), 'formats': fmts, 'curves': sorted(set(curves)),
                      'frames': rng.choice([9, 21]), 'up': rng.random() < 0.5, 'kind': kind})
    with_alt = {u: [o for o in outs if o in table] for u, outs in outs_of.items()}
    with_alt = {u: ks for u, ks in with_alt.items() if ks}
    for k, alts in sorted(table.items()):
        users = sorted(u for u, ks in with_alt.items() if k in ks)
        for v in alts:
            for u in (users if thorough else rng.sample(users, min(2, len(users)))):
                fmts = [u]
                if rng.random() < 0.4:          # a second format before or after, to vary the position in the -x list
                    fmts.insert(rng.randrange(2), rng.choice([x for x in sorted(outs_of) if x != u]))
                add(fmts, [v], 'alt-only')
    for u, ks in sorted(with_alt.items()):
        k = rng.choice(ks); v = rng.choice(table[k])
        exact = [o for o in outs_of[u] if re.fullmatch(r'[A-Za-z0-9_]+', o)]
        add([u], [rng.choice(table[k2]) for k2 in rng.sample(ks, min(len(ks), 3))], 'alt-only')
        add([u], [v, rng.choice(exact)], 'mix')
        add([u], [rng.choice(exact)], 'exact-only')
        add([u], ['QQQQ', 'ZZZ9'], 'neither')
        add([u], [v, 'QQQQ'], 'alt-and-foreign')
    return specs


def build_las_case(rng, outs_of):
    n = rng.randint(1, 4)
    fmts = rng.sample(LAS_FORMATS, n)
    have = [rng.random() < 0.55 for _ in fmts]
    curves = []
    for f, h in zip(fmts, have):
        if h:
            names = [o for o in outs_of[f] if re.fullmatch(r'[A-Za-z0-9_]+', o)]
            curves += rng.sample(names, min(len(names), rng.randint(1, 3)))
    curves = sorted(set(curves)) or ['QQQQ']
    return {'op': 'plotlogs', 'input': 'LAS', 'seed': rng.randrange(1 << 30), 'formats': fmts, 'curves': curves,
            'frames': rng.choice([9, 21]), 'up': rng.random() < 0.5}


def run_las_case(spec, scratch, outs_of):
    logging.disable(logging.CRITICAL)
    from TotalDepth import PlotLogs
    from TotalDepth.LAS.core import LASConstants
    rng = random.Random(spec['seed'])
    fails = []
    d = os.path.join(scratch, 'pl_%d' % spec['seed'])
    os.makedirs(os.path.join(d, 'in'), exist_ok=True)
    fin = os.path.join(d, 'in', 'GEN.las'); fout = os.path.join(d, 'out', 'GEN.las')
    n = spec['frames']
    chans = [(c, [rng.uniform(0.3, 150.0) for _ in range(n)]) for c in spec['curves']]
    with open(fin, 'w') as fh:
        fh.write(c19_svg.make_las(chans, n, 5000.0, -0.5 if spec['up'] else 0.5, 'F'))
    cs = set(spec['curves'])
    alt = LASConstants.LGFORMAT_LAS
    expected = {u for u in spec['formats'] if any(o in cs or any(a in cs for a in alt.get(o, [])) for o in outs_of[u])}
    try:
        plp = PlotLogs.PlotLogPasses(fin, fout, _opts(spec['formats']))
    except Exception as e:
        fails.append(f'PlotLogPasses raised {type(e).__name__}: {str(e)[:200]}')
        return fails, None, expected, {}
    info = plp.plotLogInfo
    outdir = os.path.dirname(fout)
    observed = set()
    for f in sorted(os.listdir(outdir)) if os.path.isdir(outdir) else []:
        m = re.fullmatch(r'GEN\.las_0000_(.+)\.svg', f)
        if not m:
            fails.append(f'unexpected output file {f!r}'); continue
        observed.add(m.group(1))
        check_plot_file(os.path.join(outdir, f), fails, f'LAS plot with format {m.group(1)}')
    if info.lasFileCntr != 1:
        fails.append(f'the generated LAS file was not processed as LAS (lasFileCntr={info.lasFileCntr}): a plot failed inside PlotLogPasses')
    if observed != expected:
        fails.append(f'LAS plots written for {sorted(observed)} but the formats with curves in the file are {sorted(expected)} '
                     f'(formats requested in this order: {spec["formats"]})')
    return fails, observed, expected, {'plotlogs_plots': len(observed)}


# ------------------------------------------------------------------------------------------------ stream

def _model_request(spec, p, ids):
    ps = spec['passes'][p]
    films = ','.join(str(ids[f['mnem']]) for f in ps['films'])
    pres = ','.join(f'{ids[r["dest"]]}:{ids[r["outp"]]}' for r in ps['pres']) or '-'
    chans = ','.join(str(ids[c]) for c in ps['chans']) or '-'
    return f'plotsel {ps["frames"]} {films} {pres} {chans}'


def _work(args):
    spec, scratch, outs_of = args
    try:
        if spec['input'] == 'LIS':
            return run_lis_case(spec, scratch)
        return run_las_case(spec, scratch, outs_of)
    except Exception as e:
        import traceback
        return [f'harness/producer exception {type(e).__name__}: {str(e)[:200]} {traceback.format_exc()[-300:]}'], None, None, {}


def build_specs(ctx):
    rng = ctx.rng
    specs = []
    for _ in range(ctx.n(1, 8)):
        for nf in (1, 2, 3, 4):
            for mask in range(1 << nf):              # every subset of films without data: first, middle, last, all, none
                specs.append(build_lis_case(rng, nf, mask, rng.choice([1, 1, 2])))
    outs_of = all_format_outputs()
    for _ in range(ctx.n(16, 150)):
        specs.append(build_las_case(rng, outs_of))
    specs += build_las_alt_cases(rng, outs_of, alt_table(), ctx.tier == 'thorough')
    return specs, outs_of


def run_plotlogs(ctx):
    import multiprocessing as mp
    specs, outs_of = build_specs(ctx)
    with mp.get_context('fork').Pool(min(12, os.cpu_count() or 2)) as pool:
        results = pool.map(_work, [(s, ctx.scratch, outs_of) for s in specs], chunksize=2)
    # model: which films plot, per log pass
    ids = {}
    def idof(x):
        return ids.setdefault(x, len(ids) + 1)
    req, where = [], []
    for i, s in enumerate(specs):
        if s['input'] != 'LIS':
            continue
        for p, ps in enumerate(s['passes']):
            for f in ps['films']: idof(f['mnem'])
            for r in ps['pres']: idof(r['dest']); idof(r['outp'])
            for c in ps['chans']: idof(c)
            req.append(_model_request(s, p, ids)); where.append((i, p))
    rep = ctx.lean(req) if getattr(ctx, 'model_available', True) and req else [None] * len(req)
    names = {v: k for k, v in ids.items()}
    model = {}
    for (i, p), r in zip(where, rep):
        if r is not None:
            model.setdefault(i, set()).update((p, names[int(t)].strip()) for t in ([] if r == 'ok -' else r[3:].split(',')))
    # model: is a LAS file plotted with a format (output names and their listed alternates)
    table = alt_table()
    lreq, lwhere = [], []
    for i, s in enumerate(specs):
        if s['input'] != 'LAS':
            continue
        for u in s['formats']:
            outs = outs_of[u]
            alts = [(o, a) for o in outs for a in table.get(o, [])]
            lreq.append('plotsellas %d %s %s %s' % (s['frames'], ','.join(str(idof(o)) for o in outs) or '-',
                                                    ','.join(str(idof(c)) for c in s['curves']) or '-',
                                                    ','.join(f'{idof(o)}:{idof(a)}' for o, a in alts) or '-'))
            lwhere.append((i, u))
    lrep = ctx.lean(lreq) if getattr(ctx, 'model_available', True) and lreq else [None] * len(lreq)
    lmodel = {}
    for (i, u), r in zip(lwhere, lrep):
        if r == 'ok true':
            lmodel.setdefault(i, set()).add(u)
    used_pairs = set()
    for i, (s, (fails, observed, expected, stats)) in enumerate(zip(specs, results)):
        if s['input'] == 'LAS' and observed is not None:
            if lrep and lrep[0] is not None:
                ctx.corr('plotsellas', s, sorted(observed), sorted(lmodel.get(i, set())))
            if s.get('kind'):
                ctx.count('plotlogs_las_' + s['kind'])
            for u in s['formats']:
                for o in outs_of[u]:
                    for a in table.get(o, []):
                        if a in s['curves'] and not any(x in s['curves'] for x in outs_of[u]):
                            used_pairs.add((o, a))
        ctx.count('oracle_cases'); ctx.count('plotlogs_cases')
        for k, v in stats.items():
            ctx.count(k, v)
        for d in fails[:3]:
            ctx.fail(s, d, stream='plotlogs')
        if s['input'] == 'LIS' and observed is not None and rep and rep[0] is not None:
            ctx.corr('plotsel', s, sorted(observed), sorted(model.get(i, set())))
        if not fails and observed:
            if s['input'] == 'LIS':
                ctx.nontriv(('plotlogs', 'LIS', len(s['passes'][0]['films']), tuple(st != 'data' for st in s['passes'][0]['status'])))
            else:
                ctx.nontriv(('plotlogs', 'LAS', tuple(s['formats']), tuple(sorted(observed))))
    allp = {(k, a) for k, v in table.items() for a in v}
    reach = {(k, a) for (k, a) in allp if any(k in outs for outs in outs_of.values())}
    ctx.note(f'LGFORMAT_LAS: {len(allp)} (channel, alternate) pairs, {len(reach)} belong to a channel of some built-in format, '
             f'{len(used_pairs & reach)} of those were the only match of a plotted LAS file on this run; '
             f'channels of the table used by no built-in format: {sorted({k for k, _ in allp - reach})}')
    if reach - used_pairs:
        ctx.note(f'alternates not exercised as the only match: {sorted(reach - used_pairs)}')
    ctx.sample({'op': 'plotlogs', 'films': [f['mnem'] for f in specs[5]['passes'][0]['films']], 'status': specs[5]['passes'][0]['status'],
                'plots': sorted(results[5][1] or [])})


def replay_plotlogs(ctx, case):
    outs_of = all_format_outputs() if case['input'] == 'LAS' else None
    fails, observed, expected, _ = _work((case, ctx.scratch, outs_of))
    if fails:
        return False, '; '.join(fails[:3])
    return True, f'plots written exactly for {sorted(observed)}'
