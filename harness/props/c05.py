"""C05 — LIS physical records: what is written is what is read, at any position; TIF stripping.

Implementation: TotalDepth.LIS.core.File.FileWrite / FileRead (PhysRec, TifMarker, RawStream) and TotalDepth.DeTif.strip_tif.
Model/theorems: lean/TD/TD/C05, driver lean/TD/Drivers/C05.lean.  Independent layout: harness/gen/lisphys.py.
"""
import io, logging

CLAIM = {
 'text': ('Lean 4 theorems, unbounded in the number/length of records, the layout and the length of the operation '
          'history, about a branch-for-branch model of PhysRecWrite.writeLr/TifMarkerWrite, of the PhysRecRead state '
          'machine (readHead/readTail/readOrSkip/skipToNextLr/seekLr/tellLr, TifMarkerRead) and of DeTif.strip_tif: the '
          'writer output is the LIS-79 encoding and the reported positions are the sums of the record sizes '
          '(writer_layout), every history of read/skip/next/seek/tell on an encoded file is answered exactly as the '
          'abstract record-cursor semantics says (read_refines, seek_any_order), stripping the TIF markers gives the '
          'unmarked file (strip_tif_encode, strip_tif_write); the reader handed out by '
          'file_read_with_best_physical_record_pad_settings on an unpadded written file is the (keepGoing, pad 0) reader '
          'and refines the same semantics (pad_tie_order, scan_counts_records, pad_reader_refines[_cond]). The model is tied to the code on every run by correspondence streams '
          '(writer bytes and tells, reader histories incl. malformed files, strip_tif) and the property is evaluated '
          'on the implementation alone against an independent Python layout and list slicing.'),
 'note': ('Trusted: Lean kernel; model<->code correspondence on the cases of the run. Reader modelled for the FileRead '
          'defaults keepGoing=False, pad_modulo=0. Checksum values: writer compared with the spec formula, the reader '
          'ignores them. Byte-reversed TIF: first marker next in {0x100, 0x10000} excluded (byte orders '
          'indistinguishable). Empty logical records and an empty TIF file are outside the statement.'),
 'technique': 'Lean 4 proof (simulation by invariant + induction over histories) + model-implementation correspondence',
 'design_ref': 'DESIGN.md section 6 C05',
}
RULE = ('files: all 8 trailer combinations x TIF off/normal/reversed in rotation, max PR length from the minimum '
        '(header+trailer+1) upward plus a few near 65535, 0-7 records of 1 byte..several PRs; per file one history of '
        '50-500 operations (read n / skip n / read rest / skip rest / skipToNextLr / seekLr(record i) / tellLr) drawn '
        'with n around PR and record boundaries; the same whole-read/history oracle through '
        'file_read_with_best_physical_record_pad_settings(pr_limit 1/5/100/0) on unpadded files of every layout, on files '
        'whose first k PRs end on 4-byte boundaries with a later odd one (k around pr_limit) and on padded files (null '
        'padding to 2/4; non-null padding with TIF markers); a malformed stream (truncations, flipped header bits, wrong TIF words). '
        'A case is non-trivial when its history returns bytes of at least two records and crosses a PR boundary inside '
        'a sized read or skip; distinct by (layout, record lengths, history).')
ASSUMPTIONS = ['padded files (outside FileWrite) are exercised only where the scan heuristic is determinate: null padding, or '
               'non-null padding under TIF markers; non-null padding without TIF can tie with a mis-synchronised scan',
               'io.BytesIO read/seek/tell semantics (read returns at most n bytes and advances by what it returned)',
               'reader constructed with the FileRead defaults keepGoing=False, pad_modulo=0, pad_non_null=False',
               'logical records are non-empty (the writer emits nothing for an empty record)',
               'a TIF-marked file holds at least one record; files are shorter than 2**32 - 24 bytes (32-bit TIF words)',
               'byte-reversed TIF markers: first marker next not in {0x100, 0x10000}']
TRUSTED = ['modelled, not verified: io.BytesIO, struct.pack/unpack of >H, <3L, >3L (transcribed as arithmetic on byte lists)',
           'modelled, not verified: state of the reader after an exception other than the "already at EOF" guard '
           '(histories stop there on both sides)']

FILE_NUMS = [0, 1, 255, 65535, 65536 + 7, -1]
F22 = 'C05-tif-reversed-first-next-0x10000'


def _impl():
    from TotalDepth.LIS.core import File, PhysRec, TifMarker
    from TotalDepth import DeTif
    logging.disable(logging.CRITICAL)
    return File, PhysRec, TifMarker, DeTif


def _lis():
    from gen import lisphys
    return lisphys


class _Keep(io.BytesIO):
    """FileWrite.close() closes the stream: keep the bytes."""
    def close(self):
        self.final = self.getvalue()
        super().close()


def hx(b):
    return bytes(b).hex() or '-'


def _o(v):
    return 'N' if v is None else str(v)


# ------------------------------------------------------------------ implementation adapters

def impl_write(mods, lay, recs):
    """-> canonical string, (bytes, tells) ; lay = (tifmode, prmax, rec, filenum, chk), tifmode in 0,1"""
    File, PhysRec = mods[0], mods[1]
    tif, prmax, rec, fnum, chk = lay
    try:
        b = _Keep()
        fw = File.FileWrite(b, 'c05', False, bool(tif), prmax, PhysRec.PhysRecTail(bool(rec), fnum, bool(chk)))
        tells = [fw.write(r) for r in recs]
        fw.close()
        out = b.final
    except File.ExceptionFile:
        return 'err write', None
    except mods[1].ExceptionPhysRec:
        return 'err write', None
    except Exception as e:          # anything else (struct.error, AssertionError, ...) is a failed write
        return 'err ' + type(e).__name__, None
    return f'ok {hx(out)} {",".join(map(str, tells))}', (out, tells)


def impl_write_open(mods, lay, recs):
    """FileWrite + write() for every record, the stream content BEFORE close() (how TestPhysRec builds files)."""
    File, PhysRec = mods[0], mods[1]
    tif, prmax, rec, fnum, chk = lay
    try:
        b = io.BytesIO()
        fw = File.FileWrite(b, 'c05', False, bool(tif), prmax, PhysRec.PhysRecTail(bool(rec), fnum, bool(chk)))
        tells = [fw.write(r) for r in recs]
        out = b.getvalue()
    except Exception as e:
        return 'err ' + type(e).__name__, None
    return f'ok {hx(out)} {",".join(map(str, tells))}', (out, tells)


def impl_history(mods, data, ops, reader=None):
    """ops: list of ('r', n) ('s', n) ('n',) ('k', offset) ('t',). Returns list of canonical replies.
    reader: a FileRead obtained some other way (pad-settings entry point) instead of FileRead(BytesIO(data))."""
    File, PhysRec, TifMarker = mods[0], mods[1], mods[2]
    fr = reader if reader is not None else File.FileRead(io.BytesIO(data), 'c05', False)
    out, halted = [], False
    for op in ops:
        if halted:
            out.append('H'); continue
        was_eof = fr.isEOF
        try:
            if op[0] == 'r':
                r = fr.readLrBytes(op[1]); out.append('N' if r is None else 'b' + hx(r))
            elif op[0] == 's':
                out.append('c%d' % fr.skipLrBytes(op[1]))
            elif op[0] == 'n':
                out.append('c%d' % fr.skipToNextLr())
            elif op[0] == 'k':
                out.append('p%d' % fr.seekLr(op[1]))
            else:
                out.append('p%d' % fr.tellLr())
        except File.ExceptionFileRead:
            if was_eof:
                out.append('E')
            else:
                out.append('F'); halted = True
        except TifMarker.ExceptionTifMarker:
            out.append('F'); halted = True
        except Exception as e:      # an exception class the model does not know
            out.append('X:' + type(e).__name__); halted = True
    return out


def impl_strip(mods, data):
    DeTif = mods[3]
    import struct
    o = io.BytesIO()
    try:
        n, w = DeTif.strip_tif(io.BytesIO(data), o)
    except struct.error:
        return 'err struct', None
    except DeTif.DeTifException:
        return 'err read', None
    return f'ok {hx(o.getvalue())} {n} {w}', o.getvalue()


# ------------------------------------------------------------------ independent abstract reference (oracle)

def reference_history(recs, tells, ops):
    """Abstract reader on the list of records: phase ('S', i) | ('I', i, off) | 'EOF'; cur = record reported by tellLr."""
    n = len(recs)
    ph, cur, out = ('S', 0), None, []
    for op in ops:
        k = op[0]
        if k == 't':
            out.append('p%d' % (0 if cur is None else tells[cur])); continue
        if k == 'k':
            ph, cur = ('S', op[1]), None
            out.append('p%d' % tells[op[1]]); continue
        if ph == 'EOF':
            out.append('E'); continue
        if ph[0] == 'S':
            if ph[1] >= n:
                ph = 'EOF'; out.append('N' if k == 'r' else 'c0'); continue
            if k == 'n':
                out.append('c%d' % len(recs[ph[1]])); cur = ph[1]
                ph = ('I', ph[1] + 1, 0) if ph[1] + 1 < n else 'EOF'
                if ph != 'EOF': cur = ph[1]
                continue
            ph = ('I', ph[1], 0); cur = ph[1]
        _, i, off = ph
        rest = recs[i][off:]
        if k == 'n':
            out.append('c%d' % len(rest))
            if i + 1 < n: ph, cur = ('I', i + 1, 0), i + 1
            else: ph = 'EOF'
            continue
        if not rest:
            ph = ('S', i + 1); out.append('N' if k == 'r' else 'c0'); continue
        size = op[1]
        got = rest if size < 0 else rest[:size]
        ph = ('S', i + 1) if size < 0 else ('I', i, off + len(got))
        out.append('b' + hx(got) if k == 'r' else 'c%d' % len(got))
    return out


# ------------------------------------------------------------------ generators

def gen_layout(rng, k, big=False):
    combo = k % 8
    rec, hasfn, chk = bool(combo & 1), bool(combo & 2), bool(combo & 4)
    tif = (k // 8) % 3
    fnum = rng.choice(FILE_NUMS) if hasfn else None
    tl = 2 * rec + 2 * hasfn + 2 * chk
    if big:
        prmax = rng.choice([65535, 65534, 65535 - rng.randint(0, 40), rng.randint(20000, 65535)])
    else:
        prmax = 4 + tl + 1 + rng.choice([0, 0, 1, 2, 3, 5, rng.randint(0, 20), rng.randint(0, 20), rng.randint(20, 230)])
    return (tif, prmax, int(rec), fnum, int(chk))


def gen_records(rng, lay, big=False):
    tif, prmax, rec, fnum, chk = lay
    mp = prmax - 4 - 2 * rec - 2 * (fnum is not None) - 2 * chk
    nrec = rng.choice([1, 1, 2, 3, 4, 5, 7]) if not big else rng.choice([1, 2, 3])
    recs = []
    for _ in range(nrec):
        c = rng.random()
        if c < 0.15: ln = rng.choice([1, 2, 2, 3])
        elif c < 0.35: ln = rng.randint(2, max(2, mp))
        elif c < 0.55: ln = rng.choice([mp, mp + 1, 2 * mp, 2 * mp + 1, 3 * mp, max(1, mp - 1)])
        else: ln = rng.randint(mp + 1, 4 * mp + 3)
        if not big: ln = min(ln, 700)
        recs.append(bytes(rng.getrandbits(8) for _ in range(ln)) if not big else rng.randbytes(ln))
    return recs


def first_next(lay, recs):
    tif, prmax, rec, fnum, chk = lay
    if not recs: return None
    tl = 2 * rec + 2 * (fnum is not None) + 2 * chk
    return 12 + 4 + min(len(recs[0]), prmax - 4 - tl) + tl


def gen_history(rng, lay, recs, nops):
    tif, prmax, rec, fnum, chk = lay
    mp = prmax - 4 - 2 * rec - 2 * (fnum is not None) - 2 * chk
    n = len(recs)
    ops = []
    maxlen = max([len(r) for r in recs] + [1])
    def size():
        c = rng.random()
        if c < 0.2: return -1
        if c < 0.3: return rng.choice([0, 1, 2])
        if c < 0.55: return rng.choice([mp - 1, mp, mp + 1, 2 * mp, 2 * mp + 1, 1])
        if c < 0.9: return rng.randint(0, maxlen + 2)
        return rng.randint(maxlen, 3 * maxlen + 5)
    style = rng.random()
    while len(ops) < nops:
        c = rng.random()
        if style < 0.15 and len(ops) < n + 2:
            ops.append(('r', -1)); continue       # a linear whole-record pass first
        if c < 0.34: ops.append(('r', max(-1, size())))
        elif c < 0.54: ops.append(('s', max(-1, size())))
        elif c < 0.62: ops.append(('n',))
        elif c < 0.80:
            if n: ops.append(('k', rng.randrange(n)))
        else: ops.append(('t',))
    return ops


def show_ops(ops, tells=None):
    out = []
    for op in ops:
        if op[0] in 'rs': out.append('%s%d' % op)
        elif op[0] == 'k': out.append('k%d' % (tells[op[1]] if tells is not None else op[1]))
        else: out.append(op[0])
    return ','.join(out)


def lay_str(lay):
    return f'{lay[0]} {lay[1]} {lay[2]} {_o(lay[3])} {lay[4]}'


def recs_str(recs):
    return ','.join(hx(r) for r in recs) if recs else '.'


# ------------------------------------------------------------------ the oracle on one case (implementation alone)

def check_case(ctx, mods, lay, recs, ops, want_nontriv=True):
    """Returns dict with the pieces needed for the correspondence lines; records oracle failures."""
    lis = _lis()
    tif, prmax, rec, fnum, chk = lay
    case = {'op': 'file', 'layout': list(lay), 'records': [r.hex() for r in recs], 'ops': [list(o) for o in ops]}
    ref_bytes, ref_tells, prs = lis.layout(recs, prmax, (bool(rec), fnum, bool(chk)), tif)
    finding = None
    if tif == 2 and first_next(lay, recs) == 0x10000:
        finding = F22
    res = {'ref_bytes': ref_bytes, 'ref_tells': ref_tells, 'write': None, 'hist': None, 'strip': None}
    # --- writer (the code only writes normal TIF)
    if tif != 2:
        ctx.count('oracle_cases')
        wout, w = impl_write(mods, lay, recs)
        res['write'] = wout
        if w is None:
            ctx.fail(dict(case, ops=[]), 'FileWrite raised for a valid layout')
        else:
            data, tells = w
            if data != ref_bytes:
                at = next((i for i, (x, y) in enumerate(zip(data, ref_bytes)) if x != y), min(len(data), len(ref_bytes)))
                ctx.fail(dict(case, ops=[]), f'written bytes differ from the LIS-79 layout at offset {at} '
                                             f'(lengths {len(data)} vs {len(ref_bytes)})')
            elif tells != ref_tells:
                ctx.fail(dict(case, ops=[]), f'reported write positions {tells[:6]} != layout positions {ref_tells[:6]}')
    file_bytes = ref_bytes   # the reader is always exercised on the standard's layout
    res['file'] = file_bytes
    # --- strip_tif
    if tif == 1:
        ctx.count('oracle_cases')
        sout, stripped = impl_strip(mods, file_bytes)
        res['strip'] = sout
        want = lis.write_lis(recs, prmax, (bool(rec), fnum, bool(chk)), 0)
        if stripped != want:
            ctx.fail(dict(case, ops=[]), 'strip_tif(TIF file) != file written without TIF markers'
                     + ('' if stripped is None else f' (lengths {len(stripped)} vs {len(want)})'))
    # --- files that are not (completely) closed: no / one TIF EOF marker
    res['open'] = None
    if tif != 2:
        trl = (bool(rec), fnum, bool(chk))
        open_ref = lis.write_lis(recs, prmax, trl, tif, None, 0)
        ctx.count('oracle_cases')
        oout, ow = impl_write_open(mods, lay, recs)
        res['open'] = {'write': oout, 'strips': [], 'hist': None, 'file': open_ref}
        if ow is None or ow[0] != open_ref or ow[1] != ref_tells:
            ctx.fail(dict(case, ops=[]), 'bytes/positions before close() differ from the LIS-79 layout without EOF markers')
        if tif == 1 and recs:
            want = lis.write_lis(recs, prmax, trl, 0)
            for k in (0, 1):
                ctx.count('oracle_cases')
                data_k = lis.write_lis(recs, prmax, trl, 1, None, k)
                sout, stripped = impl_strip(mods, data_k)
                res['open']['strips'].append((data_k, sout))
                if stripped != want:
                    ctx.fail(dict(case, ops=[]), f'strip_tif(TIF file with {k} EOF marker(s), i.e. not closed) != file written '
                             'without TIF markers' + ('' if stripped is None else f' (lengths {len(stripped)} vs {len(want)})'))
        if tif == 1 and ops:
            # the reader on the unclosed TIF file (what the project's tests do)
            ctx.count('oracle_cases')
            oops = ops[:80]
            conc = [('k', ref_tells[o[1]]) if o[0] == 'k' else o for o in oops]
            got = impl_history(mods, open_ref, conc)
            res['open']['hist'] = (got, conc)
            want = reference_history(recs, ref_tells, oops)
            if got != want:
                i = next(i for i, (x, y) in enumerate(zip(got, want)) if x != y)
                ctx.fail(dict(case, ops=[list(o) for o in oops[:i + 1]]),
                         f'unclosed TIF file: operation #{i} {oops[i]}: got {got[i][:60]} expected {want[i][:60]}')
    # --- history
    if ops:
        ctx.count('oracle_cases')
        conc = [('k', ref_tells[o[1]]) if o[0] == 'k' else o for o in ops]
        got = impl_history(mods, file_bytes, conc)
        res['hist'] = got
        want = reference_history(recs, ref_tells, ops)
        if got != want:
            i = next(i for i, (x, y) in enumerate(zip(got, want)) if x != y)
            # keep the replay small: the history up to the first wrong reply
            ctx.fail(dict(case, ops=[list(o) for o in ops[:i + 1]]),
                     f'operation #{i} {ops[i]}: got {got[i][:60]} expected {want[i][:60]}', finding=finding)
        elif want_nontriv:
            recs_seen = len({o[1] for o in ops if o[0] == 'k'})
            if recs_seen >= 2 or len(recs) >= 2:
                ctx.nontriv((lay, tuple(len(r) for r in recs), show_ops(ops)))
    return res


# ------------------------------------------------------------------ reader obtained through the pad-settings heuristic

PR_LIMITS = (1, 5, 100, 0)


def impl_best(mods, data, limit):
    """File.best_physical_record_pad_settings -> canonical 'pad_modulo,pad_non_null' | 'None' | 'X:<exception>'."""
    File = mods[0]
    try:
        st = File.best_physical_record_pad_settings(io.BytesIO(data), limit)
    except Exception as e:
        return 'X:' + type(e).__name__
    return 'None' if st is None else '%d,%d' % (st.pad_modulo, int(st.pad_non_null))


def impl_scan_counts(mods, data, limit):
    """File.scan_file_with_different_padding(keep_going=True) -> the six counts in dict order."""
    try:
        d = mods[0].scan_file_with_different_padding(io.BytesIO(data), True, limit)
    except Exception as e:
        return 'X:' + type(e).__name__
    return ','.join(str(v) for v in d.values())


def check_pad_case(ctx, mods, lay, recs, ops, pad, limit):
    """Oracle for File.file_read_with_best_physical_record_pad_settings(fobj, id, pr_limit): the reader it returns
    must answer every history exactly like the records say. pad = None (file as FileWrite writes it) | (modulo, fill)."""
    lis = _lis()
    tif, prmax, rec, fnum, chk = lay
    File = mods[0]
    case = {'op': 'pad', 'layout': list(lay), 'records': [r.hex() for r in recs], 'ops': [list(o) for o in ops],
            'pad': None if pad is None else [pad[0], pad[1] if isinstance(pad[1], int) else pad[1].hex()], 'limit': limit}
    data, tells, _ = lis.layout(recs, prmax, (bool(rec), fnum, bool(chk)), tif, pad)
    ctx.count('oracle_cases')
    best = impl_best(mods, data, limit)
    try:
        fr = File.file_read_with_best_physical_record_pad_settings(io.BytesIO(data), 'c05', limit)
    except Exception as e:
        ctx.fail(dict(case, ops=[]), f'file_read_with_best_physical_record_pad_settings raised {type(e).__name__}')
        return data, best, None
    if fr is None:
        ctx.fail(dict(case, ops=[]), 'no reader returned (pad settings: %s) for a well-formed file' % best)
        return data, best, None
    whole = [('r', -1)] * (len(recs) + 1) + [('t',)]
    allops = whole + [('k', 0)] + list(ops) if recs else whole
    conc = [('k', tells[o[1]]) if o[0] == 'k' else o for o in allops]
    got = impl_history(mods, data, conc, reader=fr)
    want = reference_history(recs, tells, allops)
    if got != want:
        i = next(i for i, (x, y) in enumerate(zip(got, want)) if x != y)
        short = allops[:i + 1]
        ctx.fail(dict(case, ops=[list(o) for o in short[len(whole) + 1:]] if i > len(whole) else []),
                 f'reader from pad settings {best} (pr_limit={limit}): operation #{i} {allops[i]}: got {got[i][:60]} '
                 f'expected {want[i][:60]}')
    else:
        ctx.nontriv(('pad', lay, tuple(len(r) for r in recs), str(pad), limit))
    return data, best, (got, conc)


def gen_aligned_prefix(rng, k, j):
    """A file whose first k physical records all end on 4-byte boundaries, then one of odd length, then more records.
    j selects trailer combination and TIF mode."""
    combo = j % 8
    rec, hasfn, chk = bool(combo & 1), bool(combo & 2), bool(combo & 4)
    tif = (j // 8) % 3
    fnum = rng.choice(FILE_NUMS) if hasfn else None
    tl = 2 * rec + 2 * hasfn + 2 * chk
    base = (-(4 + tl)) % 4 or 4                  # payload lengths p with (4 + p + tl) % 4 == 0
    mp = base + 4 * rng.randint(0, 6)
    lay = (tif, 4 + tl + mp, int(rec), fnum, int(chk))
    recs, prs = [], 0
    while prs < k:
        if rng.random() < 0.3 and prs + 3 <= k:
            m = rng.randint(2, 3); recs.append(bytes(rng.getrandbits(8) for _ in range(mp * m))); prs += m
        else:
            p = base + 4 * rng.randint(0, (mp - base) // 4); recs.append(bytes(rng.getrandbits(8) for _ in range(p))); prs += 1
    odd = [q for q in range(1, mp + 1) if (4 + q + tl) % 2 == 1]
    recs.append(bytes(rng.getrandbits(8) for _ in range(rng.choice(odd))))
    for _ in range(rng.randint(2, 4)):
        recs.append(bytes(rng.getrandbits(8) for _ in range(rng.randint(1, 3 * mp))))
    if tif == 2 and first_next(lay, recs) in (0x100, 0x10000):
        recs[0] = recs[0] + bytes(4)
    return lay, recs


def run_pad(ctx, mods, cases):
    """Pad-settings entry points: unpadded written files (all layouts, pr_limit 1/5/100/0), files whose first k PRs are
    4-byte aligned with a later odd one (k around pr_limit), padded files (null padding; non-null with TIF markers)."""
    rng = ctx.rng
    todo = []   # (lay, recs, ops, pad, limit)
    small = [c for c in cases if sum(map(len, c[1])) < 3000 and c[1]
             and not (c[0][0] == 2 and first_next(c[0], c[1]) in (0x100, 0x10000))]
    for idx, (lay, recs, ops) in enumerate(small[:ctx.n(700, 6000)]):
        for limit in (PR_LIMITS if idx % 4 == 0 else (PR_LIMITS[idx % 4],)):
            todo.append((lay, recs, ops[:60] if idx % 3 else ops, None, limit))
    j = 0
    for limit in (1, 5, 100):
        for k in (max(limit - 1, 1), limit, limit + 1, limit + 3):
            for _ in range(ctx.n(24, 240) if limit < 100 else ctx.n(6, 48)):
                lay, recs = gen_aligned_prefix(rng, k, j); j += 1
                todo.append((lay, recs, gen_history(rng, lay, recs, 40), None, limit))
                if j % 5 == 0:
                    todo.append((lay, recs, [], None, 0))
    for j2 in range(ctx.n(400, 4000)):
        lay = gen_layout(rng, j2)
        recs = gen_records(rng, lay)
        if not recs or (lay[0] == 2 and first_next(lay, recs) in (0x100, 0x10000)):
            continue
        fill = 0 if (lay[0] == 0 or rng.random() < 0.5) else rng.choice([0x20, 0xFF, 1, b'\x01\x02'])
        todo.append((lay, recs, gen_history(rng, lay, recs, 40), (rng.choice([2, 4]), fill), 0))
    lines_b, lines_h, impl_b, impl_h, small_cases = [], [], [], [], []
    for lay, recs, ops, pad, limit in todo:
        data, best, gc = check_pad_case(ctx, mods, lay, recs, ops, pad, limit)
        sc = {'layout': list(lay), 'record_lengths': [len(r) for r in recs], 'pad': str(pad), 'pr_limit': limit}
        lines_b.append(f'best {hx(data)} {limit}'); impl_b.append(best + ' ' + impl_scan_counts(mods, data, limit))
        small_cases.append(sc)
        if gc is not None:
            lines_h.append((f'hb {hx(data)} {limit} {show_ops(gc[1])}', ','.join(gc[0]), sc))
    # malformed files: the scan heuristic alone (model vs implementation)
    for j in range(ctx.n(300, 3000)):
        lay, recs, ops, pad, limit = todo[rng.randrange(len(todo))]
        data = mutate_file(rng, _lis().write_lis(recs, lay[1], (bool(lay[2]), lay[3], bool(lay[4])), lay[0], pad), lay)
        limit = rng.choice(PR_LIMITS)
        lines_b.append(f'best {hx(data)} {limit}')
        impl_b.append(impl_best(mods, data, limit) + ' ' + impl_scan_counts(mods, data, limit))
        small_cases.append({'file': data.hex() if len(data) < 300 else len(data), 'pr_limit': limit})
    for line, impl, sc in zip(lines_b, impl_b, small_cases):
        pass
    reps = ctx.lean(lines_b)
    for m, impl, sc in zip(reps, impl_b, small_cases):
        ctx.corr('best_pad_model', sc, impl, m)
    reps = ctx.lean([l for l, _, _ in lines_h])
    for m, (_, impl, sc) in zip(reps, lines_h):
        ctx.corr('history_padreader_model', sc, impl, m)
    ctx.count('pad_cases', len(todo))


# ------------------------------------------------------------------ malformed files (correspondence only)

def mutate_file(rng, data, lay):
    data = bytearray(data)
    c = rng.random()
    if not data:
        return bytes(data)
    if c < 0.35:
        return bytes(data[:rng.randrange(len(data))])                      # truncation
    if c < 0.55:
        i = rng.randrange(min(len(data), 40)); data[i] ^= 1 << rng.randrange(8)   # early bit flip
    elif c < 0.8:
        i = rng.randrange(len(data)); data[i] ^= 1 << rng.randrange(8)
    elif c < 0.9:
        i = rng.randrange(len(data)); del data[i:i + rng.randint(1, 4)]
    else:
        i = rng.randrange(len(data)); data[i:i] = bytes(rng.getrandbits(8) for _ in range(rng.randint(1, 4)))
    return bytes(data)


def run(ctx):
    mods = _impl()
    lis = _lis()
    rng = ctx.rng
    nfiles = ctx.n(3000, 30000)
    nbig = ctx.n(6, 40)
    cases = []
    # fixed small cases first: every trailer combination x TIF mode at the minimum PR length
    k = 0
    for k in range(24):
        lay = gen_layout(rng, k)
        tl = 2 * lay[2] + 2 * (lay[3] is not None) + 2 * lay[4]
        lay = (lay[0], 4 + tl + 1, lay[2], lay[3], lay[4])
        recs = [bytes([1, 2]), bytes([3, 4, 5]), bytes([9])]
        cases.append((lay, recs, gen_history(rng, lay, recs, 60)))
    cases.append(((0, 9, 0, None, 0), [], [('r', -1), ('t',), ('r', 3), ('t',)]))
    for j in range(nfiles):
        lay = gen_layout(rng, k + 1 + j)
        recs = gen_records(rng, lay)
        if lay[0] == 2 and first_next(lay, recs) == 0x100:
            recs[0] = recs[0] + b'\x00'        # the documented exclusion (byte orders indistinguishable)
            if first_next(lay, recs) == 0x100:
                recs[0] = recs[0][:-2]
        nops = rng.choice([50, 50, 80, 120, 200, 500]) if j % 4 else rng.randint(50, 500)
        cases.append((lay, recs, gen_history(rng, lay, recs, nops)))
    for j in range(nbig):
        lay = gen_layout(rng, j * 5 + 3, big=True)
        recs = gen_records(rng, lay, big=True)
        if lay[0] == 2 and first_next(lay, recs) in (0x100, 0x10000):
            continue
        cases.append((lay, recs, gen_history(rng, lay, recs, 50)))
    # the reversed-TIF exclusions, deterministic: 0x100 is documented (no oracle), 0x10000 is finding F22
    f22_lay = (2, 65535, 0, None, 0)
    f22_recs = [bytes(rng.getrandbits(8) for _ in range(65520)), b'ab']
    assert first_next(f22_lay, f22_recs) == 0x10000
    cases.append((f22_lay, f22_recs, [('r', 5), ('t',), ('r', -1), ('r', -1), ('k', 1), ('r', -1)]))

    # more than 65536 physical records: the trailer record number wraps (oracle only, too long for the list model)
    wrap_lay = (rng.choice([0, 1]), 7, 1, None, 0)
    wrap_recs = [bytes(rng.getrandbits(8) for _ in range(65530)), b'xyz', bytes(9)]
    check_case(ctx, mods, wrap_lay, wrap_recs, [('k', 1), ('r', -1), ('r', 4), ('t',), ('k', 0), ('s', 70000), ('r', 1), ('r', 2)],
               want_nontriv=False)
    lines_w, lines_e, lines_h, lines_a, lines_s = [], [], [], [], []
    lines_o = []
    results = []
    for lay, recs, ops in cases:
        res = check_case(ctx, mods, lay, recs, ops)
        results.append(res)
        ls, rs_ = lay_str(lay), recs_str(recs)
        if lay[0] != 2:
            lines_w.append(f'w {ls} {rs_}')
        lines_e.append(f'e {ls} {rs_}')
        if ops:
            lines_h.append(f'h {hx(res["file"])} {show_ops(ops, res["ref_tells"])}')
            lines_a.append(f'a {ls} {rs_} {show_ops(ops)}')
        if lay[0] == 1:
            lines_s.append(f'strip {hx(res["file"])}')
        if res.get('open'):
            lines_o.append((f'wo {ls} {rs_}', res['open']['write'], 'write_open_model'))
            lines_o.append((f'eo 0 {ls} {rs_}', 'ok ' + hx(res['open']['file']), 'write_open_spec'))
            for data_k, sout in res['open']['strips']:
                lines_o.append((f'strip {hx(data_k)}', sout, 'strip_open_model'))
            if res['open']['hist']:
                got, conc = res['open']['hist']
                lines_o.append((f'h {hx(res["open"]["file"])} {show_ops(conc)}', ','.join(got), 'history_open_model'))
    rep_w = iter(ctx.lean(lines_w)); rep_e = iter(ctx.lean(lines_e)); rep_h = iter(ctx.lean(lines_h))
    rep_a = iter(ctx.lean(lines_a)); rep_s = iter(ctx.lean(lines_s))
    for (line, impl, stream), m in zip(lines_o, ctx.lean([l for l, _, _ in lines_o])):
        ctx.corr(stream, {'request': line[:200]}, impl, m)
    from core import InfraError
    for (lay, recs, ops), res in zip(cases, results):
        small = {'layout': list(lay), 'records': [r.hex() for r in recs] if sum(map(len, recs)) < 400 else
                 [len(r) for r in recs]}
        if lay[0] != 2:
            ctx.corr('write_model', small, res['write'], next(rep_w))
        e = next(rep_e)
        spec_out = f'ok {hx(res["ref_bytes"])} {",".join(map(str, res["ref_tells"]))} {len(res["ref_bytes"])}'
        if lay[0] != 2:
            ctx.corr('write_spec', small, (res['write'] or '') + f' {len(res["ref_bytes"])}', e)
        elif e != spec_out:
            raise InfraError('Lean spec encoder and harness/gen/lisphys.py disagree on a reversed-TIF layout: %r' % (small,))
        if ops:
            h, a = next(rep_h), next(rep_a)
            hist = ','.join(res['hist'])
            ctx.corr('history_model', dict(small, ops=show_ops(ops)), hist, h)
            if not (lay[0] == 2 and first_next(lay, recs) in (0x100, 0x10000)):
                ctx.corr('history_abstract', dict(small, ops=show_ops(ops)), hist, a)
        if lay[0] == 1:
            ctx.corr('strip_model', small, res['strip'], next(rep_s))
    ctx.sample({'layout(tif,prMax,rec,fileNum,chk)': list(cases[30][0]), 'record_lengths': [len(r) for r in cases[30][1]],
                'ops': show_ops(cases[30][2])[:300], 'replies': ','.join(results[30]['hist'])[:300]})
    ctx.sample({'layout(tif,prMax,rec,fileNum,chk)': list(cases[77][0]), 'record_lengths': [len(r) for r in cases[77][1]],
                'ops': show_ops(cases[77][2])[:300]})
    # ---------------- readers obtained through best_physical_record_pad_settings
    run_pad(ctx, mods, cases)
    # ---------------- malformed files: model vs implementation only
    mal = []
    for j in range(ctx.n(3000, 30000)):
        lay, recs, _ = cases[rng.randrange(24, len(cases) - nbig - 1)]
        if not recs:
            continue
        data = mutate_file(rng, lis.write_lis(recs, lay[1], (bool(lay[2]), lay[3], bool(lay[4])), lay[0]), lay)
        ops = []
        for _ in range(rng.choice([6, 12, 30])):
            c = rng.random()
            if c < 0.4: ops.append(('r', rng.choice([-1, -1, 0, 1, rng.randint(0, 40)])))
            elif c < 0.6: ops.append(('s', rng.choice([-1, 0, 1, rng.randint(0, 40)])))
            elif c < 0.7: ops.append(('n',))
            elif c < 0.85: ops.append(('k', rng.choice([0, rng.randint(0, len(data) + 3)])))
            else: ops.append(('t',))
        mal.append((data, ops))
    reps = ctx.lean([f'h {hx(d)} {show_ops([("k", o[1]) if o[0] == "k" else o for o in ops], None)}' for d, ops in mal])
    for (d, ops), m in zip(mal, reps):
        try:
            got = ','.join(impl_history(mods, d, ops))
        except Exception as e:      # an exception class the model does not know
            got = 'X ' + type(e).__name__
        ctx.corr('history_malformed', {'file': d.hex() if len(d) < 300 else len(d), 'ops': show_ops(ops)}, got, m)
    # strip_tif on malformed input
    smal = [mutate_file(rng, r['file'], None) for (lay, _, _), r in zip(cases[:400], results[:400]) if lay[0] == 1]
    smal += [r['file'] for (lay, _, _), r in zip(cases[:60], results[:60]) if lay[0] != 1]
    reps = ctx.lean([f'strip {hx(d)}' for d in smal])
    for d, m in zip(smal, reps):
        ctx.corr('strip_malformed', {'file': d.hex() if len(d) < 300 else len(d)}, impl_strip(mods, d)[0], m)
    ctx.count('files', len(cases)); ctx.count('history_ops', sum(len(c[2]) for c in cases))
    ctx.note('reversed (big-endian) TIF files are produced by the spec encoder / lisphys.py: the code cannot write them')


def replay(ctx, rec):
    mods = _impl()
    case = rec['case']
    if case.get('op') == 'pad':
        lay = tuple(case['layout'])
        recs = [bytes.fromhex(r) for r in case['records']]
        ops = [tuple(o) for o in case['ops']]
        pad = case['pad']
        if pad is not None:
            pad = (pad[0], pad[1] if isinstance(pad[1], int) else bytes.fromhex(pad[1]))
        n0 = len(ctx.failures)
        check_pad_case(ctx, mods, lay, recs, ops, pad, case['limit'])
        if len(ctx.failures) > n0:
            return False, ctx.failures[-1]['detail']
        return True, 'the reader returned by file_read_with_best_physical_record_pad_settings reads the records back'
    if case.get('op') != 'file':
        return True, 'nothing to replay (no concrete failing input was recorded)'
    lay = tuple(case['layout'])
    recs = [bytes.fromhex(r) for r in case['records']]
    ops = [tuple(o) for o in case['ops']]
    n0 = len(ctx.failures)
    check_case(ctx, mods, lay, recs, ops, want_nontriv=False)
    new = [f for f in ctx.failures[n0:] if f['finding'] is None]
    if new:
        return False, new[0]['detail']
    return True, 'written bytes, positions, history replies and strip_tif agree with the LIS-79 layout / the records'


def search(ctx):
    """Extra oracle budget when a proof or the correspondence broke: many more small files and histories."""
    mods = _impl()
    rng = ctx.rng
    for j in range(6000):
        lay = gen_layout(rng, j)
        recs = gen_records(rng, lay)
        if lay[0] == 2 and first_next(lay, recs) in (0x100, 0x10000):
            continue
        check_case(ctx, mods, lay, recs, gen_history(rng, lay, recs, 120), want_nontriv=False)
        if any(f['finding'] is None for f in ctx.failures):
            return
