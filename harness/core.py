"""
Core of the verification harness for paulross/TotalDepth (see /verif/DESIGN.md section 2).

One run decides one property:

    held  <=>  proofs build  and  axiom audit clean  and  correspondence streams equal
               and  property oracle true on every explored case

* proofs / audit: `lake build TD.<Cxx>.Props`, `#print axioms` on every theorem in the Props file, token grep.
* correspondence: the plugin drives the Lean model (native driver, line protocol) and the real implementation
  on the same inputs and reports each comparison through Ctx.corr().
* oracle: the plugin evaluates the property on the implementation alone and reports failures via Ctx.fail().

A broken proof or correspondence is never by itself reported with a bogus input: the oracle failures found on this run
(and by the plugin's optional search()) are the replay; if there are none the VIOLATION line ends with
`no-failing-input-found` and the replay names what no longer checks.
"""
import argparse, signal, collections, fcntl, importlib, json, os, random, re, shutil, subprocess, sys, tempfile, time, traceback

VERIF = os.path.dirname(os.path.dirname(os.path.abspath(__file__)))
LEAN_DIR = os.path.join(VERIF, 'lean', 'TD')
REPO = os.environ.get('TDVERIF_REPO', '/repo')   # override only for mutation experiments on a scratch copy
GUARD = 'PAULROSS_TOTALDEPTH_VERIF'
ALLOWED_AXIOMS = {'propext', 'Classical.choice', 'Quot.sound'}
FORBIDDEN = re.compile(r'\bsorry\b|\badmit\b|^\s*axiom\s|native_decide|bv_decide|implemented_by|\bunsafe\s|maxHeartbeats\s+0\b', re.M)

TRUSTED_BASE = [
    'Lean 4.33.0 kernel (thorough tier: re-checked by leanchecker)',
    'axioms allowed: propext, Classical.choice, Quot.sound (audited by #print axioms on every property theorem)',
    'Lean compiler/runtime executing the model for the correspondence run (not the kernel)',
    'hand-written Lean model: trusted only as far as this run compared it with the code (see counts)',
    'harness adapters that call the real TotalDepth code in-process and canonicalise its output; CPython, numpy',
]


class InfraError(Exception):
    """Something in the machinery (not the property) failed: exit 2."""


def anchor_fingerprint(path):
    """Hash of a Python source file that ignores comments, blank lines and docstrings (ast based)."""
    import ast, hashlib
    try:
        tree = ast.parse(open(path, 'rb').read())
    except (OSError, SyntaxError) as e:
        return f'unreadable:{type(e).__name__}'
    for node in ast.walk(tree):
        body = getattr(node, 'body', None)
        if isinstance(body, list) and body and isinstance(body[0], ast.Expr) and isinstance(getattr(body[0], 'value', None), ast.Constant) \
                and isinstance(body[0].value.value, str):
            body[0].value.value = ''
    return hashlib.sha256(ast.dump(tree, include_attributes=False).encode()).hexdigest()[:24]


def anchor_files(prop, plugin):
    """The plugin's ANCHOR_FILES, else the files the property is anchored in (properties.jsonl)."""
    files = list(getattr(plugin, 'ANCHOR_FILES', []))
    if not files:
        for line in open(os.path.join(VERIF, 'properties.jsonl')):
            rec = json.loads(line)
            if rec['id'] == prop:
                files = [f for f in rec['anchors']['files'] if f.startswith('src/')]
    return files


def check_anchors(ctx, plugin):
    """Compare the anchored source files with the fingerprints recorded when the model was written (harness/anchors.json).
    A difference is not a violation: it only makes the quick tier spend more effort (Ctx.n) and is noted in the evidence."""
    files = anchor_files(ctx.prop, plugin)
    rec_path = os.path.join(VERIF, 'harness', 'anchors.json')
    rec = json.load(open(rec_path)) if os.path.exists(rec_path) else {}
    changed = []
    for rel in files:
        p = os.path.join(REPO, rel)
        if p.endswith('.py'):
            fp = anchor_fingerprint(p)
        else:
            import hashlib
            fp = hashlib.sha256(open(p, 'rb').read()).hexdigest()[:24] if os.path.exists(p) else 'missing'
        if rel in rec and rec[rel] != fp:
            changed.append(rel)
    ctx.source_changed = bool(changed)
    ctx.extra['anchored_sources_changed_since_model_was_written'] = changed
    return changed


def strip_lean_comments(src: str) -> str:
    out, i, depth, n = [], 0, 0, len(src)
    while i < n:
        if src.startswith('/-', i):
            depth += 1; i += 2; continue
        if depth and src.startswith('-/', i):
            depth -= 1; i += 2; continue
        if depth:
            if src[i] == '\n': out.append('\n')
            i += 1; continue
        if src.startswith('--', i):
            while i < n and src[i] != '\n': i += 1
            continue
        if src[i] == '"':
            j = i + 1
            while j < n and src[j] != '"':
                j += 2 if src[j] == '\\' else 1
            out.append('""'); i = j + 1; continue
        out.append(src[i]); i += 1
    return ''.join(out)


class ImplHang(BaseException):
    """Raised by the watchdog inside an implementation call that has not returned (BaseException: not swallowed by the code under test)."""
    def __init__(self, msg, where):
        super().__init__(msg)
        self.where = where


class Ctx:
    def __init__(self, prop, tier, seed):
        self.prop, self.tier, self.seed = prop, tier, seed
        self.rng = random.Random(seed * 1000003 + int(prop[1:]))
        self.stats = collections.Counter()
        self.samples = []
        self.nontrivial = set()
        self.disagreements = []     # correspondence mismatches
        self.failures = []          # oracle failures on the implementation
        self.notes = []
        self.streams = collections.Counter()
        self.scratch = tempfile.mkdtemp(prefix=f'tdverif_{prop}_', dir=os.environ.get('TMPDIR', '/var/tmp'))
        self.t0 = time.time()
        self.proof = {'obligations': 0, 'discharged': 0, 'theorems': [], 'broken': []}
        self.extra = {}
        self.source_changed = False
        self._tick = time.time()

    # ---- watchdog: an implementation call that never returns is a broken correspondence, not a stuck check
    def start_watchdog(self, limit=None, period=20):
        limit = limit or int(os.environ.get('TDVERIF_HANG_SECONDS', '300'))
        src = os.path.abspath(os.path.join(REPO, 'src')) + os.sep
        state = {'in_impl_since': None}

        def on_alarm(signum, frame):
            f, inside = frame, False
            while f is not None:
                if os.path.abspath(f.f_code.co_filename).startswith(src):
                    inside = True
                    break
                f = f.f_back
            now = time.time()
            if not inside:
                state['in_impl_since'] = None
                return
            if state['in_impl_since'] is None or state['in_impl_since'] < self._tick:
                state['in_impl_since'] = max(self._tick, now - period)
            if now - state['in_impl_since'] > limit:
                state['in_impl_since'] = None
                self._tick = now
                where = {}
                f = frame
                while f is not None:
                    if os.sep + 'props' + os.sep in f.f_code.co_filename:
                        where = {k: repr(v)[:1500] for k, v in list(f.f_locals.items())[:30]}
                        break
                    f = f.f_back
                raise ImplHang(f'no return from the implementation for {limit} s', where)

        signal.signal(signal.SIGALRM, on_alarm)
        signal.setitimer(signal.ITIMER_REAL, period, period)

    def stop_watchdog(self):
        signal.setitimer(signal.ITIMER_REAL, 0, 0)

    # ---- budgets
    def n(self, quick, thorough):
        if self.tier == 'thorough':
            return thorough
        if self.source_changed and isinstance(quick, int) and isinstance(thorough, int) and thorough > quick:
            # the anchored sources differ from the tree the model was written against: look harder (bounded)
            return min(thorough, quick * 4)
        return quick

    # ---- Lean driver
    def driver_path(self, name=None):
        name = name or self.prop
        return os.path.join(LEAN_DIR, '.lake', 'build', 'bin', f'drv_{name.lower()}')

    def lean(self, lines, name=None, timeout=1800):
        """Send request lines to the model driver, return the reply lines (one per request)."""
        if not lines:
            return []
        exe = self.driver_path(name)
        data = ('\n'.join(lines) + '\n').encode()
        if os.path.exists(exe):
            cmd = [exe]
        else:
            cmd = ['lake', 'env', 'lean', '--run', f'Drivers/{(name or self.prop)}.lean']
        p = subprocess.run(cmd, input=data, stdout=subprocess.PIPE, stderr=subprocess.PIPE, cwd=LEAN_DIR, timeout=timeout)
        if p.returncode != 0:
            raise InfraError(f'model driver failed rc={p.returncode}: {p.stderr.decode()[-2000:]}')
        out = p.stdout.decode().split('\n')
        if out and out[-1] == '':
            out.pop()
        if len(out) != len(lines):
            raise InfraError(f'model driver returned {len(out)} lines for {len(lines)} requests')
        self.stats['model_requests'] += len(lines)
        return out

    # ---- recording
    def count(self, key, n=1):
        self._tick = time.time()
        self.stats[key] += n

    def nontriv(self, key):
        self.nontrivial.add(key)

    def sample(self, obj, limit=6):
        if len(self.samples) < limit:
            self.samples.append(obj)

    def corr(self, stream, case, impl, model):
        """Record one comparison of implementation vs model output (canonical strings or JSON-able)."""
        self.streams[stream] += 1
        self._tick = time.time()
        if impl != model:
            if len(self.disagreements) < 200:
                self.disagreements.append({'stream': stream, 'case': case, 'impl': impl, 'model': model})
            self.stats['disagreements'] += 1
            return False
        return True

    def fail(self, case, detail, finding=None, stream='oracle'):
        """Record a property-oracle failure observed on the implementation alone."""
        self.stats['oracle_failures'] += 1
        self._tick = time.time()
        if len(self.failures) < 200 or finding is None:
            self.failures.append({'stream': stream, 'case': case, 'detail': detail, 'finding': finding})

    def note(self, s):
        self.notes.append(s)

    def cleanup(self):
        shutil.rmtree(self.scratch, ignore_errors=True)


# ------------------------------------------------------------------ Lean side

def _lake(args, timeout=3600):
    lock = open(os.path.join(LEAN_DIR, '.build.lock'), 'w')
    fcntl.flock(lock, fcntl.LOCK_EX)
    try:
        return subprocess.run(['lake'] + args, cwd=LEAN_DIR, stdout=subprocess.PIPE, stderr=subprocess.STDOUT, timeout=timeout)
    finally:
        fcntl.flock(lock, fcntl.LOCK_UN); lock.close()


def theorems_of(prop):
    """All `theorem` names declared in TD/<prop>/Props.lean (fully qualified)."""
    path = os.path.join(LEAN_DIR, 'TD', prop, 'Props.lean')
    src = strip_lean_comments(open(path).read())
    ns, out = [], []
    for line in src.split('\n'):
        m = re.match(r'\s*namespace\s+(\S+)', line)
        if m: ns.append(m.group(1)); continue
        m = re.match(r'\s*end\s+(\S+)\s*$', line)
        if m and ns and ns[-1].split('.')[-1] == m.group(1).split('.')[-1]: ns.pop(); continue
        m = re.match(r'\s*(?:@\[[^\]]*\]\s*)?(?:private\s+|protected\s+)?theorem\s+(\S+)', line)
        if m: out.append('.'.join(ns + [m.group(1)]))
    return out


def lean_files(prop):
    d = os.path.join(LEAN_DIR, 'TD')
    out = []
    for sub in (prop, 'Common', 'Gen'):
        p = os.path.join(d, sub)
        if os.path.isdir(p):
            for root, _, files in os.walk(p):
                out += [os.path.join(root, f) for f in files if f.endswith('.lean')]
    drv = os.path.join(LEAN_DIR, 'Drivers', f'{prop}.lean')
    if os.path.exists(drv): out.append(drv)
    return sorted(out)


def check_proofs(ctx, extra_modules=()):
    """Build the property's theorems and audit them. Fills ctx.proof. Never raises for a failed proof."""
    prop = ctx.prop
    thms = theorems_of(prop)
    ctx.proof['obligations'] = len(thms)
    ctx.proof['theorems'] = thms
    targets = [f'TD.{prop}.Props', f'drv_{prop.lower()}'] + list(extra_modules)
    p = _lake(['build'] + targets)
    log = p.stdout.decode(errors='replace')
    if p.returncode != 0:
        # the model driver does not depend on the theorems: build it on its own so the correspondence can still run
        _lake(['build', f'drv_{prop.lower()}'])
        errs = [l for l in log.split('\n') if 'error' in l][:20]
        ctx.proof['broken'].append({'what': 'lake build ' + ' '.join(targets), 'errors': errs})
        ctx.proof['build_log_tail'] = log[-3000:]
        # which theorems still check cannot be told apart cheaply: none counted as discharged
        return False
    # token audit
    bad = []
    for f in lean_files(prop):
        for m in FORBIDDEN.finditer(strip_lean_comments(open(f).read())):
            bad.append(f'{os.path.relpath(f, LEAN_DIR)}: {m.group(0).strip()}')
    if bad:
        ctx.proof['broken'].append({'what': 'forbidden token', 'errors': bad})
        return False
    # axiom audit
    audit = os.path.join(ctx.scratch, f'Audit_{prop}.lean')
    with open(audit, 'w') as fh:
        fh.write(f'import TD.{prop}.Props\n')
        for t in thms:
            fh.write(f'#print axioms {t}\n')
    p = subprocess.run(['lake', 'env', 'lean', audit], cwd=LEAN_DIR, stdout=subprocess.PIPE, stderr=subprocess.STDOUT, timeout=1800)
    out = p.stdout.decode(errors='replace')
    found = {}
    for m in re.finditer(r"'([^']+)' depends on axioms: \[([^\]]*)\]", out):
        found[m.group(1)] = {a.strip() for a in m.group(2).replace('\n', ' ').split(',') if a.strip()}
    for m in re.finditer(r"'([^']+)' does not depend on any axioms", out):
        found[m.group(1)] = set()
    ok = True
    axioms_used = set()
    for t in thms:
        if t not in found:
            ctx.proof['broken'].append({'what': f'axiom audit: no report for {t}', 'errors': [out[-500:]]}); ok = False; continue
        axioms_used |= found[t]
        extra = found[t] - ALLOWED_AXIOMS
        if extra:
            ctx.proof['broken'].append({'what': f'theorem {t} depends on disallowed axioms', 'errors': sorted(extra)}); ok = False
        else:
            ctx.proof['discharged'] += 1
    ctx.proof['axioms_used'] = sorted(axioms_used)
    if ctx.tier == 'thorough' and ok:
        p = subprocess.run(['lake', 'env', 'leanchecker', f'TD.{prop}.Props'], cwd=LEAN_DIR, stdout=subprocess.PIPE,
                           stderr=subprocess.STDOUT, timeout=3600)
        ctx.proof['leanchecker_rc'] = p.returncode
        if p.returncode != 0:
            ctx.proof['broken'].append({'what': 'leanchecker', 'errors': [p.stdout.decode(errors='replace')[-1000:]]}); ok = False
    return ok


# ------------------------------------------------------------------ decision

def load_known(prop):
    import glob
    out = {}
    for path in [os.path.join(VERIF, 'known_findings.json')] + sorted(glob.glob(os.path.join(VERIF, 'known_findings.d', '*.json'))):
        if os.path.exists(path):
            data = json.load(open(path))
            out.update({e['id']: e for e in data.get('findings', []) if e.get('property') == prop and e.get('status') == 'open'})
    return out


def write_replay(ctx, kind, payload):
    d = os.path.join(VERIF, 'replays'); os.makedirs(d, exist_ok=True)
    n = 0
    while True:
        path = os.path.join(d, f'{ctx.prop}-{ctx.seed}-{n}.json')
        if not os.path.exists(path): break
        n += 1
    payload = dict(payload, property=ctx.prop, kind=kind, seed=ctx.seed, tier=ctx.tier,
                   replay_cmd=f'./check {ctx.prop} --replay replays/{os.path.basename(path)}')
    with open(path, 'w') as fh:
        json.dump(payload, fh, indent=1, default=repr)
    return os.path.relpath(path, VERIF)


def write_evidence(ctx, plugin, violations, proofs_ok):
    cov = {
        'obligations': max(ctx.proof['obligations'], 1),
        'discharged': ctx.proof['discharged'],
        'checker_cmd': f'cd lean/TD && lake build TD.{ctx.prop}.Props && lake env lean <#print axioms of every theorem>'
                       + (' && lake env leanchecker TD.%s.Props' % ctx.prop if ctx.tier == 'thorough' else ''),
        'trusted_base': TRUSTED_BASE + list(getattr(plugin, 'TRUSTED', [])),
        'theorems': ctx.proof['theorems'],
        'axioms_used': ctx.proof.get('axioms_used', []),
        'proof_broken': ctx.proof['broken'],
        'evaluations': int(sum(ctx.streams.values()) + ctx.stats.get('oracle_cases', 0)),
        'distinct_nontrivial': len(ctx.nontrivial),
        'rule': getattr(plugin, 'RULE', ''),
        'samples': ctx.samples or ['(no cases explored)'],
        'correspondence_streams': dict(ctx.streams),
        'disagreements_checked': int(sum(ctx.streams.values())),
        'disagreements_found': int(ctx.stats.get('disagreements', 0)),
        'oracle_failures': int(ctx.stats.get('oracle_failures', 0)),
        'stats': {k: int(v) for k, v in sorted(ctx.stats.items())},
        'exhaustive': bool(ctx.extra.get('exhaustive', False)),
        'notes': ctx.notes,
    }
    cov.update({k: v for k, v in ctx.extra.items() if k != 'exhaustive'})
    ev = {
        'property_id': ctx.prop, 'tier': ctx.tier, 'seed': ctx.seed, 'level': 'proof', 'coverage': cov,
        'assumptions': list(getattr(plugin, 'ASSUMPTIONS', [])),
        'wall_s': round(time.time() - ctx.t0, 2), 'violations': violations,
    }
    os.makedirs(os.path.join(VERIF, 'evidence'), exist_ok=True)
    tmp = os.path.join(VERIF, 'evidence', f'.{ctx.prop}.json.tmp')
    with open(tmp, 'w') as fh:
        json.dump(ev, fh, indent=1, default=repr)
    os.replace(tmp, os.path.join(VERIF, 'evidence', f'{ctx.prop}.json'))


def main(argv=None):
    ap = argparse.ArgumentParser()
    ap.add_argument('prop')
    ap.add_argument('--tier', default=os.environ.get('VERIF_TIER', 'quick'), choices=['quick', 'thorough'])
    ap.add_argument('--replay')
    ap.add_argument('--seed', type=int, default=int(os.environ.get('VERIF_SEED', '0') or 0))
    args = ap.parse_args(argv)
    prop = args.prop.upper()
    os.environ[GUARD] = '1'
    sys.path.insert(0, os.path.join(VERIF, 'harness'))
    # the implementation under test is always /repo's working tree
    sys.path.insert(0, os.path.join(REPO, 'src'))
    ctx = Ctx(prop, args.tier, args.seed)
    try:
        plugin = importlib.import_module(f'props.{prop.lower()}')
        if args.replay:
            case = json.load(open(args.replay if os.path.isabs(args.replay) else os.path.join(VERIF, args.replay)))
            ok, detail = plugin.replay(ctx, case)
            print(f'replay {prop}: {"property holds on this case" if ok else "FAILS"}: {detail}')
            return 0 if ok else 1
        check_anchors(ctx, plugin)
        if hasattr(plugin, 'translate'):
            plugin.translate(ctx)
        proofs_ok = check_proofs(ctx, getattr(plugin, 'EXTRA_LEAN_TARGETS', ()))
        driver_ok = os.path.exists(ctx.driver_path()) or os.path.exists(os.path.join(LEAN_DIR, 'Drivers', f'{prop}.lean'))
        ctx.model_available = proofs_ok or os.path.exists(ctx.driver_path())
        ctx.start_watchdog()
        try:
            plugin.run(ctx)
        except (InfraError, subprocess.TimeoutExpired, MemoryError):
            raise
        except ImplHang as exc:
            ctx.stats['disagreements'] += 1
            ctx.disagreements.append({'stream': 'implementation-hung-in-adapter', 'case': exc.where,
                                      'impl': f'ImplHang: {exc}', 'model': 'every modelled operation terminates',
                                      'traceback': traceback.format_exc()[-3000:]})
            ctx.note('the run was cut short: a call into the implementation did not return')
        except Exception as exc:
            # An exception that originates inside the implementation under test (innermost frames in REPO/src) and that the
            # plugin's adapter did not expect: the implementation no longer behaves as the model/adapter describe.
            tb = traceback.extract_tb(exc.__traceback__)
            in_impl = [fr for fr in tb if os.path.abspath(fr.filename).startswith(os.path.abspath(os.path.join(REPO, 'src')))]
            if not in_impl:
                raise
            ctx.stats['disagreements'] += 1
            ctx.disagreements.append({'stream': 'implementation-raised-in-adapter', 'case': 'see traceback',
                                      'impl': f'{type(exc).__name__}: {exc}', 'model': 'no exception expected',
                                      'traceback': traceback.format_exc()[-3000:]})
            ctx.note('the run was cut short by an unexpected exception raised inside the implementation')
        broken = (not proofs_ok) or bool(ctx.disagreements)
        if broken and not [f for f in ctx.failures if f['finding'] is None] and hasattr(plugin, 'search'):
            try:
                plugin.search(ctx)
            except ImplHang as exc:
                ctx.note(f'the failing-input search was cut short as well: {exc}')
        ctx.stop_watchdog()
        known = load_known(prop)
        unlisted = [f for f in ctx.failures if f['finding'] is None or f['finding'] not in known]
        listed = collections.Counter(f['finding'] for f in ctx.failures if f['finding'] in known)
        for fid, cnt in sorted(listed.items()):
            print(f'KNOWN-FINDING: property={prop} {fid}: {known[fid]["what"]} ({cnt} case(s) on this run)')
        rc = 0
        nviol = 0
        if unlisted:
            f0 = min(unlisted, key=lambda f: len(json.dumps(f['case'], default=repr)))
            path = write_replay(ctx, 'oracle', {'case': f0['case'], 'detail': f0['detail'], 'stream': f0['stream'],
                                                'other_failures': len(unlisted) - 1,
                                                'proof_broken': ctx.proof['broken'][:3],
                                                'disagreements': ctx.disagreements[:3]})
            print(f'VIOLATION property={prop} replay={path}')
            rc, nviol = 1, len(unlisted)
        elif broken:
            what = {'proof_broken': ctx.proof['broken'], 'build_log_tail': ctx.proof.get('build_log_tail', ''),
                    'correspondence_disagreements': ctx.disagreements[:20],
                    'explanation': 'The property is no longer shown to hold: the listed theorem(s) and/or correspondence '
                                   'stream(s) no longer check, and the search found no input on which the implementation '
                                   'itself violates the property.'}
            path = write_replay(ctx, 'unproved', what)
            print(f'VIOLATION property={prop} replay={path} no-failing-input-found')
            rc, nviol = 1, 1
        write_evidence(ctx, plugin, nviol, proofs_ok)
        print(f'{prop} tier={args.tier} seed={args.seed}: theorems {ctx.proof["discharged"]}/{ctx.proof["obligations"]}, '
              f'correspondence {sum(ctx.streams.values())} comparisons / {ctx.stats.get("disagreements", 0)} disagreements, '
              f'oracle failures {ctx.stats.get("oracle_failures", 0)} ({sum(listed.values())} known), '
              f'{time.time() - ctx.t0:.1f}s -> {"OK" if rc == 0 else "VIOLATION"}')
        return rc
    except subprocess.TimeoutExpired as e:
        print(f'INFRA-ERROR {prop}: timeout {e}', file=sys.stderr); return 2
    except InfraError as e:
        print(f'INFRA-ERROR {prop}: {e}', file=sys.stderr); return 2
    except Exception:
        traceback.print_exc(); return 2
    finally:
        ctx.cleanup()


if __name__ == '__main__':
    sys.exit(main())
