"""
C07 — independent reference for the representation codes, written from the standards (LIS-79 Appendix B,
RP66V1 Appendix B) with exact integer / Fraction arithmetic.  It shares nothing with the Lean model or with the code
under test.  A finite value is returned as a canonical dyadic (m, e) meaning m*2**e with m odd (or (0, 0)).

Also: the native-extension builder (cRepCode / cpRepCode from the CURRENT sources into a scratch directory).
"""
import importlib.util, math, os, shutil, subprocess, sys, sysconfig
from fractions import Fraction


# ------------------------------------------------------------------ dyadics
def canon(m, e):
    """canonical dyadic of m*2**e"""
    if m == 0:
        return (0, 0)
    tz = (m & -m).bit_length() - 1
    return (m >> tz, e + tz)


def dy_of_float(x):
    """exact canonical dyadic of a finite float (sign of zero is lost)"""
    n, d = x.as_integer_ratio()
    return canon(n, -(d.bit_length() - 1))


def dy_fraction(d):
    m, e = d
    return Fraction(m) * (Fraction(2) ** e)


def float_str(x):
    """canonical string of a Python float, same syntax as the Lean driver"""
    if x != x:
        return 'nan'
    if x in (math.inf, -math.inf):
        return 'inf' if x > 0 else '-inf'
    if x == 0.0 and math.copysign(1.0, x) < 0:
        return 'nz'
    m, e = dy_of_float(x)
    return f'f {m} {e}'


def representable(d):
    """is the canonical dyadic d exactly a finite IEEE double?"""
    m, e = d
    if m == 0:
        return True
    n = abs(m).bit_length()
    return n <= 53 and e >= -1074 and e + n <= 1024


def nearest_double_str(m, e):
    """float_str of the correctly rounded (nearest-even) double of m*2**e, or 'overflow'"""
    m, e = canon(m, e)
    if m == 0:
        return 'f 0 0'
    n = abs(m).bit_length()
    if e + n <= -1075:                      # |v| < 2**-1075 : rounds to a signed zero
        return 'nz' if m < 0 else 'f 0 0'
    if e + n > 1025:
        return 'overflow'
    try:
        x = float(Fraction(m) * Fraction(2) ** e)
    except OverflowError:
        return 'overflow'
    return float_str(x)


def twos(bits, u):
    return u - (1 << bits) if u >> (bits - 1) else u


# ------------------------------------------------------------------ LIS-79 (Appendix B of the LIS-79 description)
def lis49(u):
    """16 bit: bits 15..4 two's complement fraction (binary point after the sign bit), bits 3..0 unsigned exponent."""
    M = twos(12, (u >> 4) & 0xFFF)          # mantissa value = M / 2**11
    E = u & 0xF
    return canon(M, E - 11)


def lis50(u):
    """32 bit: bits 31..16 two's complement exponent, bits 15..0 two's complement fraction M/2**15."""
    E = twos(16, (u >> 16) & 0xFFFF)
    M = twos(16, u & 0xFFFF)
    return canon(M, E - 15)


def lis56(u): return twos(8, u & 0xFF)
def lis66(u): return u & 0xFF
def lis77(u): return u & 0xFF
def lis73(u): return twos(32, u & 0xFFFFFFFF)
def lis79(u): return twos(16, u & 0xFFFF)


def lis68(u):
    """32 bit: sign, 8-bit excess-128 exponent (one's complemented when negative), 23-bit fraction (the 24-bit
    sign+fraction field is two's complemented when negative)."""
    S = (u >> 31) & 1
    E = (u >> 23) & 0xFF
    F = u & 0x7FFFFF
    if S == 0:
        return canon(F, E - 128 - 23)
    return canon(F - (1 << 23), (255 - E) - 128 - 23)


def lis70(u):
    """32 bit two's complement fixed point, binary point in the middle."""
    return canon(twos(32, u & 0xFFFFFFFF), -16)


LIS_REF = {49: lis49, 50: lis50, 56: lis56, 66: lis66, 68: lis68, 70: lis70, 73: lis73, 77: lis77, 79: lis79}
LIS_BITS = {49: 16, 50: 32, 56: 8, 66: 8, 68: 32, 70: 32, 73: 32, 77: 8, 79: 16}
LIS_FLOAT = (49, 50, 68, 70)
LIS_SIGNED_STRUCT = (49, 50, 56, 73, 79)     # STRUCT_RC_NN with a signed format (70 is '>I' since the fix)

R68_MAX = lis68(0x7FFFFFFF)
R68_MIN = lis68(0x80000000)                 # -2**127


def in_class_F8(u):
    """known finding F8: code-50 words whose 16-bit exponent field is outside 0..1023 and whose mantissa is non-zero"""
    return ((u >> 16) & 0xFC00) != 0 and (u & 0xFFFF) != 0


# ------------------------------------------------------------------ RP66V1 Appendix B
def ieee_ref(eb, fb, u):
    """returns ('f',(m,e)) | ('nz',) | ('inf',) | ('-inf',) | ('nan',)"""
    s = (u >> (eb + fb)) & 1
    e = (u >> fb) & ((1 << eb) - 1)
    f = u & ((1 << fb) - 1)
    bias = (1 << (eb - 1)) - 1
    if e == (1 << eb) - 1:
        return ('nan',) if f else (('-inf',) if s else ('inf',))
    if e == 0:
        if f == 0:
            return ('nz',) if s else ('f', (0, 0))
        return ('f', canon(-f if s else f, 1 - bias - fb))
    mm = (1 << fb) + f
    return ('f', canon(-mm if s else mm, e - bias - fb))


def ref_str(r):
    return f'f {r[1][0]} {r[1][1]}' if r[0] == 'f' else r[0]


def ibm_ref(b):
    """IBM System/360 single: sign, 7-bit excess-64 power of 16, 24-bit fraction."""
    s = b[0] >> 7
    e = b[0] & 0x7F
    f = (b[1] << 16) | (b[2] << 8) | b[3]
    if f == 0:
        return ('nz',) if s else ('f', (0, 0))
    return ('f', canon(-f if s else f, 4 * (e - 64) - 24))


def ibm_encode_ref(x):
    """IBM System/360 single precision encoding of the finite double x, normalised (first hexadecimal digit of the
    fraction non-zero) and truncated toward zero, written from the format definition with integer arithmetic only.
    Returns the 4 bytes, or None when the power of 16 does not fit the 7-bit excess-64 exponent."""
    if x == 0:
        return bytes(4)
    n, d = x.as_integer_ratio()
    s = 1 if n < 0 else 0
    n = abs(n)
    # smallest p with |x| < 16**p
    p = (n.bit_length() - d.bit_length()) // 4 - 2
    while n >= d * 16 ** p if p >= 0 else n * 16 ** (-p) >= d:
        p += 1
    # fraction F = floor(|x| / 16**p * 2**24)
    num, den = n << 24, d
    if p >= 0:
        den *= 16 ** p
    else:
        num *= 16 ** (-p)
    F = num // den
    E = p + 64
    if not 0 <= E <= 127:
        return None
    assert (1 << 20) <= F < (1 << 24)
    return bytes([(s << 7) | E, (F >> 16) & 255, (F >> 8) & 255, F & 255])


def vax_ref_repo(b):
    """VSINGL as the repository's cited vector (0C 44 00 80 -> 153) defines it: (0.5 + M/2**23) * 2**(E-128)
    (DESIGN F9; a VAX F_floating fraction has weight 2**-24)."""
    s = b[1] >> 7
    e = ((b[1] & 0x7F) << 1) | (b[0] >> 7)
    f = ((b[0] & 0x7F) << 16) | (b[3] << 8) | b[2]
    if e == 0 and s == 0:
        return ('f', (0, 0))
    mm = (1 << 22) + f
    return ('f', canon(-mm if s else mm, e - 128 - 23))


def vax_ref_hw(b):
    """VAX F_floating as the hardware defines it (for the record only)."""
    s = b[1] >> 7
    e = ((b[1] & 0x7F) << 1) | (b[0] >> 7)
    f = ((b[0] & 0x7F) << 16) | (b[3] << 8) | b[2]
    if e == 0:
        return ('f', (0, 0)) if s == 0 else ('reserved',)
    mm = (1 << 23) + f
    return ('f', canon(-mm if s else mm, e - 128 - 24))


def uvari_ref(b, i):
    """(value, length) or None when the bytes do not hold a complete UVARI at i"""
    if i >= len(b):
        return None
    c = b[i]
    n = 1 if c < 0x80 else (2 if c < 0xC0 else 4)
    if i + n > len(b):
        return None
    if n == 1:
        return c, 1
    return int.from_bytes(b[i:i + n], 'big') & ((1 << (8 * n - 2)) - 1), n


def ident_ref(b, i):
    if i >= len(b) or i + 1 + b[i] > len(b):
        return None
    return bytes(b[i + 1:i + 1 + b[i]]), 1 + b[i]


def ascii_ref(b, i):
    r = uvari_ref(b, i)
    if r is None or i + r[1] + r[0] > len(b):
        return None
    return bytes(b[i + r[1]:i + r[1] + r[0]]), r[1] + r[0]


def obname_ref(b, i):
    r = uvari_ref(b, i)
    if r is None or i + r[1] >= len(b):
        return None
    c = b[i + r[1]]
    t = ident_ref(b, i + r[1] + 1)
    if t is None:
        return None
    return (r[0], c, t[0]), r[1] + 1 + t[1]


def objref_ref(b, i):
    t = ident_ref(b, i)
    if t is None:
        return None
    n = obname_ref(b, i + t[1])
    if n is None:
        return None
    return (t[0], n[0]), t[1] + n[1]


def dtime_ref(b, i):
    if i + 8 > len(b):
        return None
    y, tm, d, h, mi, s = b[i:i + 6]
    return (1900 + y, tm >> 4, tm & 15, d, h, mi, s, b[i + 6] * 256 + b[i + 7]), 8


def fixed_int_ref(name, b, i):
    n, signed = {'SSHORT': (1, True), 'SNORM': (2, True), 'SLONG': (4, True), 'USHORT': (1, False),
                 'UNORM': (2, False), 'ULONG': (4, False), 'STATUS': (1, False)}[name]
    if i + n > len(b):
        return None
    return int.from_bytes(b[i:i + n], 'big', signed=signed), n


# ------------------------------------------------------------------ native build
NATIVE_SOURCES = ('cython/cRepCode.pyx', 'cpp/LISRepCode.cpp', 'cpp/LISRepCode.h', 'cp/cpLISRepCode.cpp', 'cp/cpLISRepCode.h')


def build_native(repo, scratch, infra_error):
    """Rebuild TotalDepth.LIS.core.cRepCode (Cython) and cpRepCode (C++) from the current sources under `repo`
    into `scratch` (nothing is written under the repository), with the flags setup.py would use
    (sysconfig CFLAGS, -std=c++14).  Returns (path_c, path_cp)."""
    src = os.path.join(repo, 'src', 'TotalDepth', 'LIS', 'core', 'src')
    bdir = os.path.join(scratch, 'native')
    os.makedirs(bdir, exist_ok=True)
    for rel in NATIVE_SOURCES:
        p = os.path.join(src, rel)
        if not os.path.exists(p):
            raise infra_error(f'native source missing: {p}')
        shutil.copy(p, os.path.join(bdir, os.path.basename(rel)))
    inc = sysconfig.get_config_var('INCLUDEPY')
    suffix = sysconfig.get_config_var('EXT_SUFFIX')
    cflags = [f for f in (sysconfig.get_config_var('CFLAGS') or '').split() if f not in ('-g', '-Wall', '-Wsign-compare')]
    cc, cxx = sysconfig.get_config_var('CC') or 'gcc', sysconfig.get_config_var('CXX') or 'g++'
    cc, cxx = cc.split()[0], cxx.split()[0]

    def sh(cmd):
        p = subprocess.run(cmd, cwd=bdir, stdout=subprocess.PIPE, stderr=subprocess.STDOUT, timeout=600)
        if p.returncode != 0:
            raise infra_error('native build failed: ' + ' '.join(cmd) + '\n' + p.stdout.decode(errors='replace')[-3000:])

    # C++ extension first in the background (independent), Cython meanwhile
    cpp_cmds = [[cxx] + cflags + ['-fPIC', '-std=c++14', '-I.', f'-I{inc}', '-c', f, '-o', f + '.o']
                for f in ('cpLISRepCode.cpp', 'LISRepCode.cpp')]
    procs = [subprocess.Popen(c, cwd=bdir, stdout=subprocess.PIPE, stderr=subprocess.STDOUT) for c in cpp_cmds]
    sh([sys.executable, '-m', 'cython', '-3', 'cRepCode.pyx', '-o', 'cRepCode.c'])
    sh([cc] + cflags + ['-fPIC', f'-I{inc}', '-c', 'cRepCode.c', '-o', 'cRepCode.o'])
    path_c = os.path.join(bdir, 'cRepCode' + suffix)
    sh([cc, '-shared', 'cRepCode.o', '-o', path_c])
    for c, p in zip(cpp_cmds, procs):
        out, _ = p.communicate(timeout=600)
        if p.returncode != 0:
            raise infra_error('native build failed: ' + ' '.join(c) + '\n' + out.decode(errors='replace')[-3000:])
    path_cp = os.path.join(bdir, 'cpRepCode' + suffix)
    sh([cxx, '-shared', 'cpLISRepCode.cpp.o', 'LISRepCode.cpp.o', '-o', path_cp])
    return path_c, path_cp


def load_ext(fullname, path, infra_error):
    """import an extension module from an explicit path under its package-qualified name and register it in
    sys.modules, so that TotalDepth.LIS.core.RepCode picks the freshly built one."""
    try:
        spec = importlib.util.spec_from_file_location(fullname, path)
        mod = importlib.util.module_from_spec(spec)
        spec.loader.exec_module(mod)
    except Exception as e:          # a built module that cannot be imported is a machinery failure
        raise infra_error(f'cannot load {path}: {e!r}')
    sys.modules[fullname] = mod
    return mod
