"""
DAT mud-log file generator / printer (used by C14, reusable by C20).

A *file* is a JSON-able dict mirroring `TD.C14.Spec.File`:

    {'decls': [{'name', 'words': [..], 'units', 'lay': LAY}, ...],       # declaration section, in file order
     'sel':   [name, ...],                                               # header names after UTIM DATE TIME
     'hdr_lay': LAY,
     'rows':  [{'utim': [y, mo, d, h, mi, s], 'date': [y, mo, d], 'time': [h, mi, s],
                'nums': [NUM, ...], 'lay': LAY, 'cell': CELL}, ...],
     'final_newline': bool}
    LAY  = {'lead': str, 'seps': [str, ...], 'trail': str}      (separators beyond the list default to one space)
    NUM  = {'sign': ''|'+'|'-', 'ip': '123', 'frac': None|'45', 'exp': None|['e'|'E', ''|'+'|'-', '12']}
    CELL = {'dash': bool, 'day_zeros': int, 'yr_zeros': int, 'h_pad': bool, 'm_pad': bool, 's_pad': bool}

`print_file` is an independent Python printer (the Lean spec printer is the other one; C14 compares them),
`expected` is what a correct parse must give, in the canonical form used by harness/props/c14.py.
All randomness comes from the `random.Random` passed in.
"""
import datetime
from fractions import Fraction

MONTHS = ['Jan', 'Feb', 'Mar', 'Apr', 'May', 'Jun', 'Jul', 'Aug', 'Sep', 'Oct', 'Nov', 'Dec']
SPECIAL = {'UTIM': ('Unix Time', 'sec'), 'DATE': ('Date', 'ddmmyy'), 'TIME': ('Time', 'hhmmss')}
BLANKS = ' \t\x0b\x0c\r'
WORDS = ['Wits', 'Activity', 'Code', 'Bit', 'Diameter', 'Measured', 'Depth', 'Hole', 'Vertical', 'Pulling', 'Speed',
         'ROP', 'Block', 'Position', 'Hookload', 'Weight', 'on', 'Torque', 'String', 'RPM', 'Time', 'Total', 'Pump',
         'Pressure', 'Flow', 'Out', 'In', 'Fluid', 'Density', 'Volume', 'Pit', '1', '2', 'ECD', 'at', 'n-Pentane',
         'Neo-Pentane', 'Gas', '(avg)', 'm3', 'UTIM', 'DATE', 'TIME', '%', 'A', '0']
UNITS = ['unitless', 'inch', 'm', 'm/sec', 'g/cc', 'm/hr', 'tons', 'kNm', 'rpm', 'hr', 'bar', 'm3', 'l/min', 'ppm',
         'degC', '%', 'sec', 'ddmmyy', 'hhmmss', 'M', '1/s']
TOKCHARS = ''.join(chr(c) for c in range(33, 127))


# ------------------------------------------------------------------ generation

def _sep(rng, style):
    if style == 'plain':
        return ' '
    if style == 'tabs':
        return '\t'
    n = rng.choice([1, 1, 1, 2, 3, 8])
    alphabet = ' \t' if style == 'mixed' else BLANKS
    return ''.join(rng.choice(alphabet) for _ in range(n))


def gen_lay(rng, ntok, style):
    if style in ('plain', 'tabs'):
        lead, trail = '', rng.choice(['', '', ' '])
    else:
        lead = ''.join(rng.choice(' \t') for _ in range(rng.choice([0, 0, 0, 1, 3])))
        trail = ''.join(rng.choice(' \t') for _ in range(rng.choice([0, 0, 1, 2])))
        if rng.random() < 0.15:
            trail += '\r'
    k = max(ntok - 1, 0)
    if style != 'plain' and rng.random() < 0.2:
        k = rng.randint(0, k)            # let the printer default the remaining separators
    return {'lead': lead, 'seps': [_sep(rng, style) for _ in range(k)], 'trail': trail}


def gen_word(rng):
    if rng.random() < 0.8:
        return rng.choice(WORDS)
    return ''.join(rng.choice(TOKCHARS) for _ in range(rng.randint(1, 6)))


def gen_name(rng, taken):
    while True:
        n = ''.join(rng.choice('ABCDEFGHIJKLMNOPQRSTUVWXYZ0123456789') for _ in range(rng.choice([1, 2, 3, 3, 4, 4, 5])))
        if n not in taken and n not in SPECIAL:
            return n


def gen_num(rng):
    r = rng.random()
    sign = '' if r < 0.7 else ('-' if r < 0.93 else '+')
    ip = ''.join(rng.choice('0123456789') for _ in range(rng.choice([0, 1, 1, 1, 2, 3, 4, 6, 9])))
    if rng.random() < 0.25:
        frac = None
    else:
        frac = ''.join(rng.choice('0123456789') for _ in range(rng.choice([0, 1, 2, 2, 3, 4, 4, 7])))
    if ip == '' and not frac:
        ip = rng.choice('0123456789')
    exp = None
    if rng.random() < 0.12:
        e = rng.choice([rng.randint(0, 20), rng.randint(0, 330), rng.randint(300, 420)]) if rng.random() < 0.3 else rng.randint(0, 12)
        exp = [rng.choice('eE'), rng.choice(['', '+', '-', '-']), ('0' if rng.random() < 0.1 else '') + str(e)]
    return {'sign': sign, 'ip': ip, 'frac': frac, 'exp': exp}


def days_in_month(y, m):
    if m == 2:
        return 29 if (y % 4 == 0 and y % 100 != 0) or y % 400 == 0 else 28
    return 30 if m in (4, 6, 9, 11) else 31


def gen_ymd(rng, lo, hi):
    r = rng.random()
    if r < 0.1:
        y = rng.choice([lo, hi, min(max(2000, lo), hi), min(max(1999, lo), hi), min(max(2050, lo), hi), min(max(1951, lo), hi)])
    elif r < 0.2:
        y = rng.randint(lo, hi)
    else:
        y = rng.randint(max(lo, 1985), min(hi, 2035))
    m = rng.randint(1, 12)
    if rng.random() < 0.15:
        m = 2
    dim = days_in_month(y, m)
    d = dim if rng.random() < 0.2 else rng.randint(1, dim)
    return [y, m, d]


def gen_hms(rng):
    if rng.random() < 0.15:
        return [rng.choice([0, 9, 10, 19, 20, 23]), rng.choice([0, 9, 10, 59]), rng.choice([0, 9, 10, 59])]
    return [rng.randint(0, 23), rng.randint(0, 59), rng.randint(0, 59)]


def gen_cell(rng, style):
    if style == 'plain':
        return {'dash': rng.random() < 0.3, 'day_zeros': 0, 'yr_zeros': 0, 'h_pad': True, 'm_pad': True, 's_pad': True}
    return {'dash': rng.random() < 0.5, 'day_zeros': rng.choice([0, 0, 1, 2]), 'yr_zeros': rng.choice([0, 0, 1, 3]),
            'h_pad': rng.random() < 0.6, 'm_pad': rng.random() < 0.6, 's_pad': rng.random() < 0.6}


def gen_file(rng, max_channels=12, max_rows=8, style=None):
    style = style or rng.choice(['plain', 'plain', 'tabs', 'mixed', 'mixed', 'wild'])
    nch = rng.choice([1, 1, 2, 3, 5, rng.randint(1, max_channels)])
    nundef = rng.choice([0, 0, 1, 3])
    names = []
    for _ in range(nch + nundef):
        names.append(gen_name(rng, names))
    decls = []
    for n in ['UTIM', 'DATE', 'TIME'] + names:
        if n in SPECIAL and rng.random() < 0.8:
            words, units = SPECIAL[n][0].split(), SPECIAL[n][1]
        else:
            words = [gen_word(rng) for _ in range(rng.choice([1, 1, 2, 3, 4, 6]))]
            units = SPECIAL[n][1] if n in SPECIAL else (rng.choice(UNITS) if rng.random() < 0.85 else gen_word(rng))
            if n == 'UTIM' and (words + [units])[:2] == ['DATE', 'TIME']:
                words = ['Unix'] + words
        decls.append({'name': n, 'words': words, 'units': units, 'lay': gen_lay(rng, len(words) + 2, style)})
    if style != 'plain' or rng.random() < 0.5:
        rng.shuffle(decls)                       # declaration order is free
    sel = list(names)
    rng.shuffle(sel)
    sel = sel[:nch]
    if style == 'plain' and rng.random() < 0.5:
        sel = [n for n in names if n in sel]
    nrows = rng.choice([0, 1, 1, 2, 3, rng.randint(0, max_rows)])
    rows = []
    for _ in range(nrows):
        utim = gen_ymd(rng, 1, 9999) + gen_hms(rng)
        if rng.random() < 0.6:
            y = min(max(utim[0], 1951), 2050)
            date = [y, utim[1], min(utim[2], days_in_month(y, utim[1]))]
        else:
            date = gen_ymd(rng, 1951, 2050)
        time = utim[3:] if rng.random() < 0.6 else gen_hms(rng)
        rows.append({'utim': utim, 'date': date, 'time': list(time), 'nums': [gen_num(rng) for _ in sel],
                     'lay': gen_lay(rng, 3 + len(sel), style), 'cell': gen_cell(rng, style)})
    return {'decls': decls, 'sel': sel, 'hdr_lay': gen_lay(rng, 3 + len(sel), style), 'rows': rows,
            'final_newline': rng.random() < 0.8}


# ------------------------------------------------------------------ printing (independent of the Lean printer)

def num_token(x):
    s = x['sign'] + x['ip']
    if x['frac'] is not None:
        s += '.' + x['frac']
    if x['exp'] is not None:
        s += x['exp'][0] + x['exp'][1] + x['exp'][2]
    return s


def num_fraction(x):
    """(negative?, exact value as Fraction) — the sign is kept apart because of -0.0."""
    frac = x['frac'] or ''
    mant = int((x['ip'] + frac) or '0')
    e = 0
    if x['exp'] is not None:
        e = int(x['exp'][2]) * (-1 if x['exp'][1] == '-' else 1)
    return x['sign'] == '-', mant, e - len(frac)


def unix_time(u):
    y, mo, d, h, mi, s = u
    return (datetime.date(y, mo, d).toordinal() - 719163) * 86400 + h * 3600 + mi * 60 + s


def _two(pad, n):
    return '%02d' % n if pad else str(n)


def date_token(c, d):
    dash = '-' if c['dash'] else ''
    return '0' * c['day_zeros'] + str(d[2]) + dash + MONTHS[d[1] - 1] + dash + '0' * c['yr_zeros'] + str(d[0] % 100)


def time_token(c, t):
    return _two(c['h_pad'], t[0]) + '-' + _two(c['m_pad'], t[1]) + '-' + _two(c['s_pad'], t[2])


def row_tokens(r):
    return [str(unix_time(r['utim'])), date_token(r['cell'], r['date']), time_token(r['cell'], r['time'])] + \
           [num_token(x) for x in r['nums']]


def print_line(tokens, lay):
    out = [lay['lead']]
    for i, t in enumerate(tokens):
        out.append(t)
        if i + 1 < len(tokens):
            out.append(lay['seps'][i] if i < len(lay['seps']) else ' ')
    out.append(lay['trail'])
    return ''.join(out)


def file_lines(f):
    lines = [print_line([d['name']] + d['words'] + [d['units']], d['lay']) for d in f['decls']]
    lines.append(print_line(['UTIM', 'DATE', 'TIME'] + f['sel'], f['hdr_lay']))
    lines += [print_line(row_tokens(r), r['lay']) for r in f['rows']]
    return lines


def print_file(f):
    lines = file_lines(f)
    return '\n'.join(lines) + ('\n' if f['final_newline'] else '')


# ------------------------------------------------------------------ expected result (canonical form of c14.py)

def dec_to_hex(neg, mant, exp10):
    """float.hex() of the correctly rounded binary64 of (-1)^neg * mant * 10^exp10 (overflow -> inf as strtod does)."""
    if mant == 0:
        v = 0.0
    else:
        nd = len(str(mant))
        if exp10 + nd > 400:
            v = float('inf')
        elif exp10 + nd < -400:
            v = 0.0
        else:
            try:
                v = float(Fraction(mant) * Fraction(10) ** exp10)
            except OverflowError:
                v = float('inf')
    return (-v if neg else v).hex()


def expected(f):
    """[(name, description, units, 'O'|'F', [canonical value, ...]), ...] in header order."""
    decl = {d['name']: d for d in f['decls']}
    out = []
    hdr = ['UTIM', 'DATE', 'TIME'] + f['sel']
    for i, n in enumerate(hdr):
        d = decl[n]
        vals = []
        for r in f['rows']:
            if i == 0:
                vals.append('T' + '.'.join(map(str, r['utim'])))
            elif i == 1:
                vals.append('D' + '.'.join(map(str, r['date'])))
            elif i == 2:
                vals.append('t' + '.'.join(map(str, r['time'])))
            else:
                vals.append('f' + dec_to_hex(*num_fraction(r['nums'][i - 3])))
        out.append((n, ' '.join(d['words']), d['units'], 'O' if i < 3 else 'F', vals))
    return out


# ------------------------------------------------------------------ serialisation for the Lean driver

def enc(s):
    return '.'.join('%x' % ord(c) for c in s) if s else '-'


def _lay_args(l):
    return [enc(l['lead']), str(len(l['seps']))] + [enc(s) for s in l['seps']] + [enc(l['trail'])]


def _num_args(x):
    a = [x['sign'] or 'N', x['ip'] or '-', 'N' if x['frac'] is None else (x['frac'] or '-')]
    if x['exp'] is None:
        a.append('N')
    else:
        a += [x['exp'][0], x['exp'][1] or 'N', x['exp'][2] or '-']
    return a


def driver_args(f):
    a = ['1' if f['final_newline'] else '0', str(len(f['decls']))]
    for d in f['decls']:
        a += [enc(d['name']), str(len(d['words']))] + [enc(w) for w in d['words']] + [enc(d['units'])] + _lay_args(d['lay'])
    a += [str(len(f['sel']))] + [enc(n) for n in f['sel']] + _lay_args(f['hdr_lay'])
    a.append(str(len(f['rows'])))
    for r in f['rows']:
        a += [str(v) for v in r['utim'] + r['date'] + r['time']]
        a.append(str(len(r['nums'])))
        for x in r['nums']:
            a += _num_args(x)
        a += _lay_args(r['lay'])
        c = r['cell']
        a += [str(int(c['dash'])), str(c['day_zeros']), str(c['yr_zeros']), str(int(c['h_pad'])), str(int(c['m_pad'])), str(int(c['s_pad']))]
    return ' '.join(a)


# ------------------------------------------------------------------ single-line corruptions

BAD_NUMBERS = ['12x4', '1.2.3', '--5', '1e', 'abc', '0x10', '1,5', '1__0', '_1', '5_', '.', '+', 'e5', '1e+', '1.5f', 'n/a', '#', '1-2']
BAD_DATES = ['32Dec06', '09Dex06', '29Feb01', '9-Dec06', '0Jan01', '31Apr99', '09Dec', 'Dec06', '09-12-06', '091206',
             '9Dec-06', '09DEC06', '30-Feb-00', '1Jan8100', '29Feb1900', '9--Dec--06', '9Dec99999999999', '99999999999-Dec-06',
             '9Dec2147481747', '9Dec2147481748', '2147483647Dec06', '2147483648Dec06']
BAD_TIMES = ['24-00-00', '11-60-00', '115017', '11-50-60', '11:50:17', '11-50', '11-50-17-3', '11-50-175', '-11-50-17',
             '11--50-17', '011-50-17', '11-50-61', '1a-50-17', '11-50-6x']
BAD_UTIMS = ['99999999999999999999', '-99999999999999999', '253402300800', '-62135596801', '67768036191676800',
             '1165665017.5', '1e9', 'ABC', '-', '0x10', '1__0', '9223372036854775808', '-9223372036854775809', '1' * 30]
JUNK_LOW = [chr(c) for c in list(range(0, 9)) + list(range(14, 32)) + list(range(127, 256))]
JUNK_HIGH = ['\u4e2d', '\u2014', '\u0142', '\u2003', '\u2009', '\U0001f600', '\u3000', '\ufeff', '\u0416', '\u2028', '\u0100']

CATALOGUE = ['drop_column', 'add_column', 'rename_header_word', 'rename_leading_header_word', 'undeclared_in_header',
             'repeat_header_word', 'drop_header_word', 'garble_number', 'garble_date', 'garble_time', 'bad_utim',
             'duplicate_declaration', 'redeclare_differently', 'empty_line', 'junk_low', 'junk_high', 'whitespace_only_change']


def split_keep(line):
    """tokens and the separators around them of a line made of printable tokens and blanks: (lead, [tok...], [sep...], trail)"""
    import re
    parts = re.split(r'([ \t\x0b\x0c\r]+)', line)
    lead = ''
    if parts and parts[0] == '':
        parts = parts[1:]
        lead = parts.pop(0) if parts else ''
    trail = ''
    if parts and parts[-1] == '':
        parts = parts[:-1]
        trail = parts.pop() if parts else ''
    return lead, parts[0::2], parts[1::2], trail


def join_keep(lead, toks, seps, trail):
    out = [lead]
    for i, t in enumerate(toks):
        out.append(t)
        if i + 1 < len(toks):
            out.append(seps[i] if i < len(seps) else ' ')
    out.append(trail)
    return ''.join(out)


def corrupt(rng, f, kind):
    """Apply one catalogue corruption to exactly one line of the printed file.

    Returns (text, must_reject, note) or None when the kind does not apply to this file.
    must_reject: the corrupted file cannot be read as the original content, so a DAT error is the only correct outcome;
    otherwise the result may also equal the original content (harmless change)."""
    lines = file_lines(f)
    nd, nr = len(f['decls']), len(f['rows'])
    hdr = nd
    end = '\n' if f['final_newline'] else ''
    def out(ls, must, note=''):
        return '\n'.join(ls) + end, must, note
    def edit_tokens(i, fn):
        lead, toks, seps, trail = split_keep(lines[i])
        r = fn(toks, seps)
        if r is None:
            return None
        toks, seps = r
        ls = list(lines)
        ls[i] = join_keep(lead, toks, seps, trail)
        return ls
    if kind in ('drop_column', 'add_column', 'garble_number', 'garble_date', 'garble_time', 'bad_utim') and nr == 0:
        return None
    row = hdr + 1 + rng.randrange(nr) if nr else None
    if kind == 'drop_column':
        def fn(toks, seps):
            j = rng.randrange(len(toks))
            return toks[:j] + toks[j + 1:], (seps[:j] + seps[j + 1:]) if j < len(seps) else seps[:-1]
        return out(edit_tokens(row, fn), True)
    if kind == 'add_column':
        def fn(toks, seps):
            j = rng.randint(0, len(toks))
            return toks[:j] + [rng.choice(['0', '1.5', '-999.25', toks[-1]])] + toks[j:], seps[:j] + [' '] + seps[j:]
        return out(edit_tokens(row, fn), True)
    if kind == 'rename_header_word':
        def fn(toks, seps):
            j = rng.randrange(3, len(toks))
            toks = list(toks); toks[j] = gen_name(rng, [d['name'] for d in f['decls']])
            return toks, seps
        return out(edit_tokens(hdr, fn), True)
    if kind == 'rename_leading_header_word':
        def fn(toks, seps):
            j = rng.randrange(0, 3)
            toks = list(toks); toks[j] = rng.choice([toks[j][:-1], toks[j] + 'X', toks[j].lower(), 'UTIME', 'DAT', 'TIM', 'X'])
            return toks, seps
        return out(edit_tokens(hdr, fn), True)
    if kind == 'undeclared_in_header':
        def fn(toks, seps):
            j = rng.randint(3, len(toks))
            return toks[:j] + [gen_name(rng, [d['name'] for d in f['decls']])] + toks[j:], seps[:j - 1] + [' '] + seps[j - 1:]
        return out(edit_tokens(hdr, fn), True)
    if kind == 'repeat_header_word':
        def fn(toks, seps):
            j = rng.randint(3, len(toks))
            return toks[:j] + [rng.choice(toks)] + toks[j:], seps[:j - 1] + [' '] + seps[j - 1:]
        return out(edit_tokens(hdr, fn), True)
    if kind == 'drop_header_word':
        if nr == 0 and len(f['sel']) > 1:
            return None            # a shorter header without data lines is simply another valid file
        def fn(toks, seps):
            j = rng.randrange(3, len(toks))
            return toks[:j] + toks[j + 1:], seps[:j - 1] + seps[j:]
        return out(edit_tokens(hdr, fn), True)
    if kind in ('garble_number', 'garble_date', 'garble_time', 'bad_utim'):
        def fn(toks, seps):
            toks = list(toks)
            if kind == 'garble_number':
                toks[rng.randrange(3, len(toks))] = rng.choice(BAD_NUMBERS)
            elif kind == 'garble_date':
                toks[1] = rng.choice(BAD_DATES)
            elif kind == 'garble_time':
                toks[2] = rng.choice(BAD_TIMES)
            else:
                toks[0] = rng.choice(BAD_UTIMS)
            return toks, seps
        return out(edit_tokens(row, fn), True)
    if kind == 'duplicate_declaration':
        j = rng.randrange(nd)
        k = rng.randint(0, nd)
        ls = lines[:k] + [lines[j]] + lines[k:]          # a verbatim second copy: still a duplicate declaration
        return out(ls, True)
    if kind == 'redeclare_differently':
        j = rng.randrange(nd)
        d = f['decls'][j]
        k = rng.randint(0, nd)
        ls = lines[:k] + [f"{d['name']} Something else entirely zz"] + lines[k:]
        used = d['name'] in ['UTIM', 'DATE', 'TIME'] + f['sel']
        # two conflicting declarations of one channel: there is no "its declaration" any more
        return out(ls, True, 'redeclared-used' if used else 'redeclared-unused')
    if kind == 'empty_line':
        k = rng.randint(0, len(lines) if f['final_newline'] else len(lines) - 1)
        if k == 0 and rng.random() < 0.5:
            k = 1
        ls = lines[:k] + [rng.choice(['', '', ' ', '\t', ' \r'])] + lines[k:]
        return out(ls, True)
    if kind == 'junk_low':
        i = rng.randrange(len(lines))
        ls = list(lines)
        p = rng.randint(0, len(ls[i]))
        ls[i] = ls[i][:p] + ''.join(rng.choice(JUNK_LOW) for _ in range(rng.choice([1, 1, 2, 5]))) + ls[i][p:]
        return out(ls, False)
    if kind == 'junk_high':
        i = rng.randrange(hdr, len(lines))                # header or data line (a declaration would just get another text)
        ls = list(lines)
        p = rng.randint(0, len(ls[i]))
        ls[i] = ls[i][:p] + rng.choice(JUNK_HIGH) + ls[i][p:]
        return out(ls, False)
    if kind == 'whitespace_only_change':
        i = rng.randrange(len(lines))
        lead, toks, seps, trail = split_keep(lines[i])
        seps = [rng.choice([s, s + ' ', '\t', '  ']) for s in seps]
        ls = list(lines)
        ls[i] = join_keep(rng.choice([lead, ' ', '']), toks, seps, rng.choice([trail, '  ', '\t']))
        return out(ls, False)
    raise ValueError(kind)
