"""Independent pure-Python layout of LIS-79 physical records (used as oracle by C05, reusable by C06/C08/C20).

    write_lis(records, pr_max_len, trailers, tif) -> bytes
    layout(records, pr_max_len, trailers, tif)    -> (bytes, [start position of each logical record], [PR descriptors])

* records      : iterable of bytes (logical records: 2 header bytes + payload, as the caller made them); an empty record
                 occupies no space (no physical record is written for it).
* pr_max_len   : maximum physical record length (header 4 + payload + trailer), <= 65535.
* trailers     : (has_record_number: bool, file_number: int|None, has_checksum: bool)
* pad          : None, or (modulo, fill): every physical record is followed by filler bytes (fill: an int byte value or a
                 bytes pattern) up to the next multiple of `modulo` of the file position; TIF `next` words count them.
* eof_markers  : number of TIF end-of-file markers written at the end (2 = closed file, 0 = the bytes before close()).
* tif          : 0/False/'off' no TIF markers; 1/True/'le' markers as TotalDepth writes them (three little-endian
                 32-bit words type, previous, next); 2/'be' big-endian words ("reversed" in TotalDepth's vocabulary).

Written from the LIS-79 description, NOT from TotalDepth's code: PR header = 16-bit big-endian length (header and trailer
included), 16-bit attributes (bit 0 successor, bit 1 predecessor, bit 9 record number present, bit 10 file number
present, bit 12 checksum present); trailer = [record number][file number][checksum] each 16-bit big-endian; the checksum
is the 16-bit add-with-end-around-carry-then-rotate-left of the 16-bit words of everything before it in the PR.
A TIF marker precedes every PR: (0, position of previous marker, position of next marker); the file ends with two
markers of type 1.
"""
import struct

TIF_MODES = {0: 0, False: 0, 'off': 0, None: 0, 1: 1, True: 1, 'le': 1, 2: 2, 'be': 2}


def checksum(data: bytes) -> int:
    c = 0
    for i in range(0, len(data) - 1, 2):
        c += (data[i] << 8) | data[i + 1]
        if c > 0xFFFF:                      # end-around carry
            c = (c & 0xFFFF) + 1
        c = ((c << 1) | (c >> 15)) & 0xFFFF  # rotate left one bit
    return c


def split_payload(record: bytes, max_payload: int):
    return [record[i:i + max_payload] for i in range(0, len(record), max_payload)]


def layout(records, pr_max_len, trailers=(False, None, False), tif=0, pad=None, eof_markers=2):
    has_rec, file_num, has_chk = trailers
    mode = TIF_MODES[tif]
    trailer_len = 2 * bool(has_rec) + 2 * (file_num is not None) + 2 * bool(has_chk)
    max_payload = pr_max_len - 4 - trailer_len
    if pr_max_len > 0xFFFF or max_payload < 1:
        raise ValueError('no room for payload')
    word = '<L' if mode == 1 else '>L'
    base_attr = (0x200 if has_rec else 0) | (0x400 if file_num is not None else 0) | (0x1000 if has_chk else 0)
    out = bytearray()
    tells, prs = [], []
    marker_positions = []
    pr_count = 0

    def marker(kind, nxt):
        prev = marker_positions[-1] if marker_positions else 0
        marker_positions.append(len(out))
        out.extend(struct.pack(word, kind) + struct.pack(word, prev) + struct.pack(word, nxt))

    for ri, record in enumerate(records):
        record = bytes(record)
        tells.append(len(out))
        parts = split_payload(record, max_payload)
        for k, part in enumerate(parts):
            length = 4 + len(part) + trailer_len
            attr = base_attr | (1 if k < len(parts) - 1 else 0) | (2 if k > 0 else 0)
            start = len(out)
            end = start + (12 if mode else 0) + length
            pad_len = (-end) % pad[0] if pad and pad[0] else 0
            if mode:
                marker(0, end + pad_len)
            body = struct.pack('>HH', length, attr) + part
            if has_rec:
                body += struct.pack('>H', pr_count % 65536)
            if file_num is not None:
                body += struct.pack('>H', file_num % 65536)
            if has_chk:
                body += struct.pack('>H', checksum(body))
            prs.append({'record': ri, 'chunk': k, 'start': start, 'data_start': start + (12 if mode else 0) + 4,
                        'payload_len': len(part), 'length': length})
            out.extend(body)
            if pad_len:     # physical record padding (LIS-79 2.3.1.1): filler up to a multiple of pad[0] bytes
                fill = pad[1]
                out.extend(bytes([fill]) * pad_len if isinstance(fill, int) else bytes(fill[i % len(fill)] for i in range(pad_len)))
            pr_count += 1
    if mode:
        for _ in range(eof_markers):    # 2: closed file; 0: a file still being written (before close())
            marker(1, len(out) + 12)
    return bytes(out), tells, prs


def write_lis(records, pr_max_len, trailers=(False, None, False), tif=0, pad=None, eof_markers=2) -> bytes:
    return layout(records, pr_max_len, trailers, tif, pad, eof_markers)[0]


def strip_tif_reference(records, pr_max_len, trailers=(False, None, False)) -> bytes:
    """What a TIF-marked file must become once its markers are removed."""
    return write_lis(records, pr_max_len, trailers, 0)
