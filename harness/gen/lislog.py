"""
LIS log-pass file generator shared by C06 (and reusable by C11/C20).

Everything is driven by small JSON-able *descriptions* so that a failing case can be stored in a replay file and
rebuilt bit-for-bit:

    lp_desc   = random_logpass_desc(rng, ...)            # one log pass (DFSR + type 0/1 data records)
    lp        = LogPassData(lp_desc)                      # expanded: dfsr bytes, record bytes, words, X values
    file_desc = {'items': [...], 'layout': {...}}         # a whole LIS file (delimiters, tables, log passes)
    built     = build_file(file_desc)                     # bytes + true positions / extents of every logical record

Nothing here imports TotalDepth: the encoders are written from the LIS-79 layout (mirrored by the Lean spec encoder
`TD.C06.Spec`, cross-checked on every run of C06).  Channel values are kept as raw big-endian *words*.
"""
import math, random, struct
from fractions import Fraction

RC_SIZE = {49: 2, 50: 4, 56: 1, 66: 1, 68: 4, 70: 4, 73: 4, 77: 1, 79: 2}
FRAME_RCS = [49, 50, 56, 66, 68, 70, 73, 77, 79]
INT_X_RCS = [68, 73, 79]          # codes used for an X axis in the generator (integer valued)

DELIM = {'fh': 128, 'ft': 129, 'th': 130, 'tt': 131, 'rh': 132, 'rt': 133}
DELIM_LEN = {128: 56, 129: 56, 130: 126, 131: 126, 132: 126, 133: 126}   # payload after the 2 header bytes
TABLE_TYPES = (32, 34, 39)
NONE_TYPES = (42, 47, 65, 95, 96, 97, 100, 101, 102, 137, 138, 139, 141)
UNKNOWN_FMT_TYPES = (224, 225, 227, 232, 234, 85, 86)
UNHANDLED_TYPES = (2, 5, 33, 40, 63, 66, 90, 127, 134, 136, 200, 255)


# ---------------------------------------------------------------- words

def enc68_int(v, shift=0):
    """A rep code 68 word whose value is the integer v (|v| < 2**23); shift > 0 gives a more normalised form."""
    assert -(1 << 23) <= v < (1 << 23)
    if v == 0:
        return 0
    if v > 0:
        m, e = v, 151
        while shift > 0 and m * 2 < (1 << 23) and e > 0:
            m, e, shift = m * 2, e - 1, shift - 1
        return (e << 23) | m
    m, e = v, 104            # value = m * 2**(104 - e), m in [-2**23, 0)
    while shift > 0 and m * 2 >= -(1 << 23) and e < 255:
        m, e, shift = m * 2, e + 1, shift - 1
    return (1 << 31) | (e << 23) | ((1 << 23) + m)


def enc_int(rc, v, shift=0):
    """word of integer v in an integer capable rep code"""
    if rc == 68:
        return enc68_int(v, shift)
    if rc == 73:
        assert -(1 << 31) <= v < (1 << 31); return v & 0xFFFFFFFF
    if rc == 79:
        assert -(1 << 15) <= v < (1 << 15); return v & 0xFFFF
    if rc == 56:
        assert -128 <= v < 128; return v & 0xFF
    if rc == 66:
        assert 0 <= v < 256; return v
    raise ValueError(rc)


def int_range(rc):
    return {68: (-(1 << 23), (1 << 23) - 1), 73: (-(1 << 31), (1 << 31) - 1), 79: (-(1 << 15), (1 << 15) - 1),
            56: (-128, 127), 66: (0, 255)}[rc]


# ---- floating point X values (exact decoders written from the LIS-79 layouts; encoders give a nearby word)

def dec68(w):
    neg = bool(w & 0x80000000)
    frac = w & 0x007FFFFF
    e = (w >> 23) & 0xFF
    if neg:
        return Fraction(frac - (1 << 23)) * Fraction(2) ** (104 - e)
    return Fraction(frac) * Fraction(2) ** (e - 151)


def enc68_float(v):
    v = Fraction(v)
    if v == 0:
        return 0
    e = math.floor(math.log2(abs(float(v)))) + 1          # |v| < 2**e
    for e in (e, e + 1):
        m = round(v * Fraction(2) ** (23 - e))
        if v > 0 and m < (1 << 23) and 0 <= e + 128 <= 255:
            return ((e + 128) << 23) | m
        if v < 0 and -(1 << 23) <= m < 0 and 0 <= 127 - e <= 255:
            return (1 << 31) | ((127 - e) << 23) | ((1 << 23) + m)
    raise ValueError(v)


def dec49(w):
    m = w & 0xFFF0
    if w & 0x8000:
        m -= 0x10000
    return Fraction(m, 1 << 15) * (1 << (w & 0xF))


def enc49(v):
    v = Fraction(v)
    for e in range(16):
        m = round(v * Fraction(1 << 15, 1 << e) / 16) * 16
        if -0x8000 <= m <= 0x7FF0:
            return (m & 0xFFF0) | e
    raise ValueError(v)


def dec50(w):
    mant = w & 0xFFFF
    if w & 0x8000:
        mant -= 0x10000
    return Fraction(mant) * Fraction(2) ** (((w >> 16) & 0x3FF) - 15)


def enc50(v):
    v = Fraction(v)
    if v == 0:
        return 0
    e = max(-15, math.floor(math.log2(abs(float(v)))) - 14)
    for e in (e, e + 1):
        m = round(v / Fraction(2) ** e)
        if -0x8000 <= m <= 0x7FFF and 0 <= e + 15 <= 0x3FF:
            return ((e + 15) << 16) | (m & 0xFFFF)
    raise ValueError(v)


XDEC = {68: dec68, 49: dec49, 50: dec50}
XENC = {68: enc68_float, 49: enc49, 50: enc50}


def word_bytes(rc, w):
    return w.to_bytes(RC_SIZE[rc], 'big')


# ---------------------------------------------------------------- DFSR / records

def mnem(i):
    return ('%04d' % (i % 10000)).encode('ascii')


def enc_eb(t, rc, val):
    return bytes([t, len(val), rc]) + val


def encode_dfsr(d):
    """The DFSR logical record (header included) of a log pass description. Mirrors TD.C06.Spec.encDfsr."""
    units = d['units'].encode('ascii')
    b = bytes([64, 0]) + enc_eb(1, 66, bytes([d['data_type']])) + enc_eb(4, 66, bytes([d['up_down']]))
    if d.get('spacing_word') is not None:
        b += enc_eb(8, d['spacing_rc'], word_bytes(d['spacing_rc'], d['spacing_word']))
    b += enc_eb(9, 65, units) + enc_eb(13, 66, bytes([1 if d['indirect'] else 0])) + enc_eb(14, 65, units)
    b += enc_eb(15, 66, bytes([d['depth_rc']])) + bytes([0, 1, 66, 0])
    for i, (size, samples, rc) in enumerate(d['chans']):
        b += (mnem(i) + b'S' * 6 + b'O' * 8 + b' ' * 4 + b'\x02\xb3\x60\x3b' + bytes([1, 0]) + struct.pack('>H', size)
              + b'000' + bytes([samples, rc]) + bytes([0, 1, 2, 3, 4]))
    return b


class LogPassData:
    """A log pass expanded from its description.

    desc keys: data_type (0|1), indirect (bool), depth_rc, up_down (1 up, 255 down, 0 time), spacing (abs int, as declared
    in entry block 8), spacing_rc, units (4 chars), chans [[size, samples, rc], ...], fpr [frames per record, ...],
    x0 (X of frame 0), vseed (seed of the channel words), xjit (explicit X only: list of extra increments per frame or
    None), shift68 (normalisation of generated rep code 68 integers).
    """

    def __init__(self, d):
        self.d = d
        self.indirect = d['indirect']
        self.chans = [tuple(c) for c in d['chans']]
        self.nvals = [size // RC_SIZE[rc] for size, samples, rc in self.chans]
        self.fpr = list(d['fpr'])
        self.total = sum(self.fpr)
        self.float_x = bool(d.get('xfloat'))
        self.rec_first = []
        f = 0
        for n in self.fpr:
            self.rec_first.append(f); f += n
        rnd = random.Random(d['vseed'])
        jit = d.get('xjit')
        self.rec_xword = None
        if self.float_x:
            # X values are what the recorded words decode to (exact Fractions); spacing is the decoded entry block 8
            xrc = d['depth_rc'] if self.indirect else self.chans[0][2]
            sp = abs(XDEC[d['spacing_rc']](d['spacing_word']))
            self.step_x = -sp if d['up_down'] == 1 else sp
            x0 = Fraction(d['x0'])
            self.xwords, self.x = [], []
            if self.indirect:
                self.rec_xword = [XENC[xrc](x0 + f0 * self.step_x) for f0 in self.rec_first]
                for r, f0 in enumerate(self.rec_first):
                    xr = XDEC[xrc](self.rec_xword[r])
                    self.x += [xr + k * self.step_x for k in range(self.fpr[r])]
            else:
                self.xwords = [XENC[xrc](x0 + i * self.step_x) for i in range(self.total)]
                self.x = [XDEC[xrc](w) for w in self.xwords]
        else:
            sp = abs(d['spacing'])
            self.step_x = -sp if d['up_down'] == 1 else sp          # signed spacing along increasing frame number
            self.x = []
            x = d['x0']
            for i in range(self.total):
                self.x.append(x)
                x += self.step_x + (jit[i % len(jit)] if jit else 0)
        # raw words [frame][chan] -> list
        self.words = []
        for i in range(self.total):
            row = []
            for ci, (size, samples, rc) in enumerate(self.chans):
                n = self.nvals[ci]
                # rep code 70: words with the sign bit set make RepCode.readBytes raise OverflowError (C07's subject)
                ws = [rnd.getrandbits(8 * RC_SIZE[rc] - (1 if rc == 70 else 0)) for _ in range(n)]
                if ci == 0 and not self.indirect:      # explicit X: first value of channel 0
                    ws[0] = self.xwords[i] if self.float_x else enc_int(rc, self.x[i], d.get('shift68', 0))
                row.append(ws)
            self.words.append(row)
        d = dict(d)
        if d.get('spacing_rc') is not None and 'spacing_word' not in d:
            d['spacing_word'] = enc_int(d['spacing_rc'], abs(d['spacing']))
        self.dfsr = encode_dfsr(d)
        self.records = []
        f = 0
        for r, n in enumerate(self.fpr):
            b = bytes([d['data_type'], 0])
            if self.indirect and self.float_x:
                b += word_bytes(d['depth_rc'], self.rec_xword[r])
            elif self.indirect:
                xr = self.x[f] if f < self.total else (self.x[-1] + self.step_x if self.x else d['x0'])
                b += word_bytes(d['depth_rc'], enc_int(d['depth_rc'], xr, d.get('shift68', 0)))
            for i in range(f, f + n):
                for ci, (size, samples, rc) in enumerate(self.chans):
                    for w in self.words[i][ci]:
                        b += word_bytes(rc, w)
            self.records.append(b)
            f += n

    # where a frame lives
    def record_of(self, frame):
        r = 0
        for r, first in enumerate(self.rec_first):
            if first <= frame < first + self.fpr[r]:
                return r, frame - first
        raise IndexError(frame)

    def frame_bytes(self, i):
        return b''.join(word_bytes(self.chans[ci][2], w) for ci in range(len(self.chans)) for w in self.words[i][ci])

    @property
    def evenly_spaced(self):
        return not self.d.get('xjit') and not self.float_x


def random_chans(rng, k, first_rc=None, small=False):
    chans = []
    for i in range(k):
        rc = first_rc if (i == 0 and first_rc) else rng.choice(FRAME_RCS)
        samples = rng.choice([1, 1, 1, 2, 3, 4] if not small else [1, 1, 2])
        bursts = rng.choice([1, 1, 1, 2, 3, 5] if not small else [1, 1, 2])
        if i == 0 and first_rc:
            samples, bursts = rng.choice([(1, 1), (1, 1), (1, 2), (2, 1)])
        chans.append([RC_SIZE[rc] * samples * bursts, samples, rc])
    return chans


def random_logpass_desc(rng, data_type=0, indirect=None, max_ch=6, max_rec=6, max_fpr=7, small=False, jitter=False, zero_rec=0.0):
    indirect = rng.random() < 0.5 if indirect is None else indirect
    up_down = rng.choice([1, 255, 0])
    k = rng.randint(1, max_ch)
    if indirect:
        depth_rc = rng.choice([73, 73, 68, 79])
        chans = random_chans(rng, k, None, small)
        xrc = depth_rc
    else:
        depth_rc = rng.choice([0, 73, 68])
        xrc = rng.choice(INT_X_RCS)
        chans = random_chans(rng, k, xrc, small)
    nrec = rng.randint(1, max_rec)
    style = rng.random()
    n0 = rng.randint(1, max_fpr)
    if style < 0.45:
        fpr = [n0] * nrec                                   # regular
    elif style < 0.8:
        fpr = [n0] * nrec; fpr[-1] = rng.randint(1, n0)     # short last record
    else:
        fpr = [rng.randint(1, max_fpr) for _ in range(nrec)]   # irregular
    if indirect and zero_rec and rng.random() < zero_rec:
        fpr.insert(rng.randint(0, len(fpr)), 0)     # a data record holding only the X word (known finding F22)
    total = sum(fpr)
    lo, hi = int_range(xrc)
    sp = rng.choice([1, 2, 5, 60, 10, rng.randint(1, 300)])
    if xrc == 79:
        sp = rng.choice([1, 2, 3, 5])
    span = sp * (total + 2) + 50
    x0 = rng.randint(max(lo + span, -10**6), min(hi - span, 10**6))
    spacing_rc = rng.choice([66, 73, 68, 79]) if sp < 256 else rng.choice([73, 68, 79])
    d = {'data_type': data_type, 'indirect': indirect, 'depth_rc': depth_rc, 'up_down': up_down, 'spacing': sp,
         'spacing_rc': spacing_rc, 'units': rng.choice(['.1IN', 'FEET', 'M   ', 'MS  ']), 'chans': chans, 'fpr': fpr,
         'x0': x0, 'vseed': rng.getrandbits(32), 'xjit': None, 'shift68': rng.choice([0, 0, 3, 30])}
    if jitter and not indirect:
        d['xjit'] = [rng.choice([0, 1, 0, 2]) for _ in range(rng.randint(2, 5))]
    return d


FLOAT_SPACINGS = [0.1, 0.15, 1.0 / 3, 0.5, 0.1524, 0.25, 2.5, 0.05, 1.0 / 7, 0.3048, 60.0, 0.001]


def random_float_logpass_desc(rng, data_type=0, indirect=None, max_ch=4, max_rec=5, max_fpr=9):
    """A log pass whose X axis and frame spacing are floating point values (rep code 68, 50 or 49 for the X word;
    the spacing in rep code 68): fine / non-dyadic spacings at large X, where single precision is visibly not enough."""
    d = random_logpass_desc(rng, data_type=data_type, indirect=(rng.random() < 0.75 if indirect is None else indirect),
                            max_ch=max_ch, max_rec=max_rec, max_fpr=max_fpr, small=True)
    xrc = rng.choice([68, 68, 68, 68, 50, 49])
    if d['indirect']:
        d['depth_rc'] = xrc
    else:
        size, samples, rc = d['chans'][0]
        d['chans'][0] = [RC_SIZE[xrc] * (size // RC_SIZE[rc]), samples, xrc]
    sp = rng.choice(FLOAT_SPACINGS)
    d['xfloat'] = True
    d['spacing_rc'] = 68
    d['spacing_word'] = enc68_float(Fraction(sp))
    d['spacing'] = None
    d['xjit'] = None
    total = sum(d['fpr'])
    if xrc == 49:
        d['x0'] = float(rng.choice([100, 1000, 5000, 12000])) + rng.random() * 10 + (total + 1) * sp * (1 if d['up_down'] == 1 else 0)
    else:
        d['x0'] = float(rng.choice([1000, 3000.5, 9876.54321, 20000, 100000.25])) + rng.random() * 100
    return d


# ---------------------------------------------------------------- other logical records

def table_record(t, name, rc=65, first_mnem=b'TYPE'):
    """A table logical record whose first component block (type 73) carries the table name."""
    if rc == 65:
        val = name.encode('ascii') if isinstance(name, str) else bytes(name)
        cb = bytes([73, 65, len(val), 0]) + first_mnem + b'    ' + val
    else:
        val = word_bytes(rc, name)
        cb = bytes([73, rc, len(val), 0]) + first_mnem + b'    ' + val
    # one datum block start + entry so that the record looks like a table
    row = bytes([0, 65, 4, 0]) + b'MNEM' + b'    ' + b'ROW1' + bytes([69, 65, 4, 0]) + b'STAT' + b'    ' + b'ALLO'
    return bytes([t, 0]) + cb + row


def delimiter_record(t, tag=b'X'):
    n = DELIM_LEN[t]
    body = (tag * n)[:n]
    return bytes([t, 0]) + body


def misc_record(t, n, seed=0):
    rnd = random.Random(seed)
    return bytes([t, 0]) + bytes(rnd.getrandbits(8) for _ in range(n))


# ---------------------------------------------------------------- physical layer

def write_physical(lrs, layout):
    """Wrap logical records (bytes, header included) into physical records.

    layout: pr_len (max physical record length), rec_num, file_num (None or int), checksum (bools), tif (bool).
    Returns (file bytes, [tell of each LR], [(start, end) extent of each LR incl. TIF markers and trailers]).
    Same layout as TotalDepth.LIS.core.PhysRec.PhysRecWrite / TifMarker.TifMarkerWrite (checked in C06's tests).
    """
    pr_len = layout.get('pr_len', 65535)
    rec_num, file_num, checksum, tif = layout.get('rec_num', False), layout.get('file_num'), layout.get('checksum', False), layout.get('tif', False)
    prt_len = (2 if rec_num else 0) + (2 if file_num is not None else 0) + (2 if checksum else 0)
    attr0 = (1 << 9 if rec_num else 0) | (1 << 10 if file_num is not None else 0) | (1 << 12 if checksum else 0)
    max_pay = pr_len - 4 - prt_len
    assert max_pay >= 1
    out = bytearray()
    tells, extents = [], []
    recno = 0
    tif_back, tif_next, prev_diff = 0, 0, 0
    for lr in lrs:
        start = len(out)
        tells.append(start)
        ofs = 0
        while ofs < len(lr):
            pay = lr[ofs:ofs + max_pay]
            attr = attr0 | (1 if ofs + max_pay < len(lr) else 0) | (2 if ofs > 0 else 0)
            b = bytearray(struct.pack('>HH', 4 + len(pay) + prt_len, attr)) + pay
            if rec_num:
                b += struct.pack('>H', recno & 0xFFFF); recno += 1
            if file_num is not None:
                b += struct.pack('>H', file_num)
            if checksum:
                cs = 0
                for i in range(0, len(b) - 1, 2):
                    cs += b[i + 1] + 256 * b[i]
                    if cs & 0x10000: cs += 1
                    cs *= 2
                    if cs & 0x10000: cs += 1
                    cs &= 0xFFFF
                b += struct.pack('>H', cs)
            if tif:
                tif_next += len(b) + 12
                out += struct.pack('<3L', 0, tif_back, tif_next)
                tif_back += prev_diff
                prev_diff = len(b) + 12
            out += b
            ofs += len(pay)
        extents.append((start, len(out)))
    if tif:
        for _ in range(2):
            tif_next += 12
            out += struct.pack('<3L', 1, tif_back, tif_next)
            tif_back += prev_diff
            prev_diff = 12
    return bytes(out), tells, extents


def random_layout(rng):
    r = rng.random()
    if r < 0.3:
        return {'pr_len': 65535}
    lay = {'pr_len': rng.choice([16, 20, 32, 64, 100, 128, 256, 1024, 8192, 65535])}
    if rng.random() < 0.4: lay['rec_num'] = True
    if rng.random() < 0.3: lay['file_num'] = rng.randint(0, 65535)
    if rng.random() < 0.3: lay['checksum'] = True
    if rng.random() < 0.35: lay['tif'] = True
    return lay


# ---------------------------------------------------------------- whole files

class BuiltFile:
    """bytes + ground truth of a generated file.

    lrs:      [(kind, type, bytes, info)] in file order; kind in 'delim','table','misc','dfsr','data'
    tells:    true position of each logical record; extents: physical byte range of each
    passes:   [{'lp': LogPassData, 'dfsr_lr': index into lrs, 'data_lrs': [indexes]}]
    """
    def __init__(self, desc):
        self.desc = desc
        self.lrs, self.passes = [], []
        for it in desc['items']:
            k = it['k']
            if k in DELIM:
                self.lrs.append(('delim', DELIM[k], delimiter_record(DELIM[k], it.get('tag', 'X').encode('ascii')), None))
            elif k == 'table':
                self.lrs.append(('table', it['type'], table_record(it['type'], it['name'], it.get('rc', 65)), (it.get('rc', 65), it['name'])))
            elif k == 'misc':
                self.lrs.append(('misc', it['type'], misc_record(it['type'], it['n'], it.get('seed', 0)), None))
            elif k == 'lp':
                lp = LogPassData(it['lp'])
                p = {'lp': lp, 'dfsr_lr': len(self.lrs), 'data_lrs': []}
                self.lrs.append(('dfsr', 64, lp.dfsr, len(self.passes)))
                for r, rec in enumerate(lp.records):
                    p['data_lrs'].append(len(self.lrs))
                    self.lrs.append(('data', lp.d['data_type'], rec, (len(self.passes), r)))
                self.passes.append(p)
            elif k == 'lp01':
                a, b = LogPassData(it['lp0']), LogPassData(it['lp1'])
                pa = {'lp': a, 'dfsr_lr': len(self.lrs), 'data_lrs': []}
                self.lrs.append(('dfsr', 64, a.dfsr, len(self.passes)))
                pb = {'lp': b, 'dfsr_lr': len(self.lrs), 'data_lrs': []}
                self.lrs.append(('dfsr', 64, b.dfsr, len(self.passes) + 1))
                ia = ib = 0
                order = list(it['order']) + [0] * len(a.records) + [1] * len(b.records)
                for o in order:
                    if o == 0 and ia < len(a.records):
                        pa['data_lrs'].append(len(self.lrs)); self.lrs.append(('data', 0, a.records[ia], (len(self.passes), ia))); ia += 1
                    elif o == 1 and ib < len(b.records):
                        pb['data_lrs'].append(len(self.lrs)); self.lrs.append(('data', 1, b.records[ib], (len(self.passes) + 1, ib))); ib += 1
                self.passes += [pa, pb]
            else:
                raise ValueError(k)
        self.bytes, self.tells, self.extents = write_physical([l[2] for l in self.lrs], desc.get('layout', {}))


def build_file(desc):
    return BuiltFile(desc)


TABLE_NAMES = ['CONS', 'FILM', 'PRES', 'AREA', 'PIP ', 'TOOL', 'INPU', 'OUTP', 'CTIM', 'A', 'LONGNAME12']


def random_file_desc(rng, max_passes=2, **lpopts):
    items = []
    if rng.random() < 0.3: items.append({'k': 'rh'})
    if rng.random() < 0.3: items.append({'k': 'th'})
    nfiles = rng.choice([1, 1, 1, 2])
    for fno in range(nfiles):
        if rng.random() < 0.85: items.append({'k': 'fh', 'tag': rng.choice('ABCDEF')})
        # data record with no DFSR in front of it (only right behind a delimiter or at the very start): skipped by the indexer
        if rng.random() < 0.1 and (not items or items[-1]['k'] in DELIM):
            items.append({'k': 'misc', 'type': rng.choice([0, 1]), 'n': rng.randint(0, 30), 'seed': rng.getrandbits(16)})
        for _ in range(rng.randint(0, 3)):
            _rand_other(rng, items)
        npass = rng.randint(1, max_passes)
        for pno in range(npass):
            if rng.random() < 0.15:
                d0 = random_logpass_desc(rng, data_type=0, **lpopts)
                d1 = random_logpass_desc(rng, data_type=1, **lpopts)
                n = len(d0['fpr']) + len(d1['fpr'])
                items.append({'k': 'lp01', 'lp0': d0, 'lp1': d1, 'order': [rng.randint(0, 1) for _ in range(n)]})
            else:
                items.append({'k': 'lp', 'lp': random_logpass_desc(rng, data_type=rng.choice([0, 0, 0, 1]), **lpopts)})
            for _ in range(rng.randint(0, 2)):
                _rand_other(rng, items)
        if rng.random() < 0.85: items.append({'k': 'ft', 'tag': rng.choice('ABCDEF')})
    if rng.random() < 0.3: items.append({'k': 'tt'})
    if rng.random() < 0.3: items.append({'k': 'rt'})
    return {'items': items, 'layout': random_layout(rng)}


def _rand_other(rng, items):
    r = rng.random()
    if r < 0.55:
        rc = rng.choice([65, 65, 65, 65, 73, 79, 66, 68])
        if rc == 65:
            name = rng.choice(TABLE_NAMES)
        elif rc == 68:
            name = enc68_int(rng.randint(-1000, 1000))
        else:
            name = enc_int(rc, rng.randint(*[max(-1000, int_range(rc)[0]), min(1000, int_range(rc)[1])]))
        items.append({'k': 'table', 'type': rng.choice(TABLE_TYPES), 'name': name, 'rc': rc})
    elif r < 0.8:
        items.append({'k': 'misc', 'type': rng.choice(NONE_TYPES + UNKNOWN_FMT_TYPES), 'n': rng.randint(0, 40), 'seed': rng.getrandbits(16)})
    else:
        items.append({'k': 'misc', 'type': rng.choice(UNHANDLED_TYPES), 'n': rng.randint(0, 20), 'seed': rng.getrandbits(16)})
