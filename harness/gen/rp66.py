"""
RP66V1 (DLIS) physical-format generator shared by C01, C02 (and reusable by C03, C04, C20).

A pure-Python mirror of the Lean specification encoder `TD.C01.encode` (lean/TD/TD/C01/Spec.lean); the C01
correspondence cross-checks the two on every generated file.

Abstract content
    sul      dict  seq:int, seq_fill:bytes ('0'/' ' chars), ver:bytes (b'V1.00'), max_len:int, max_fill:bytes, ident:bytes(60)
    records  list of (eflr: bool, type: int, payload: bytes)
    layout   list (one per record) of lists of segment descriptors, each a dict
               n     payload bytes carried by the segment
               pad   0 = no padding, p>=1 = pad attribute + p pad bytes (the last holds p); not written when enc
               fill  value of the other pad bytes
               chk   None or (a, b): the two checksum bytes
               trl   trailing length present
               enc   encrypted (payload opaque, pad bytes not written/stripped)
               pkt   encryption packet attribute bit
               vr    None, or L: this segment starts a visible record whose header announces length L
"""

SUL_SIZE = 80
VR_MIN, VR_MAX = 20, 16384
SEG_MIN = 16


def seg(n, pad=0, fill=0, chk=None, trl=False, enc=False, pkt=False, vr=None):
    return {'n': n, 'pad': pad, 'fill': fill, 'chk': chk, 'trl': trl, 'enc': enc, 'pkt': pkt, 'vr': vr}


def pad_bytes(d):
    if d['pad'] == 0 or d['enc']:
        return b''
    return bytes([d['fill']]) * (d['pad'] - 1) + bytes([d['pad']])


def seg_len(d):
    return 4 + d['n'] + len(pad_bytes(d)) + (2 if d['chk'] is not None else 0) + (2 if d['trl'] else 0)


def attr_byte(eflr, first, last, d):
    return ((128 if eflr else 0) + (0 if first else 64) + (0 if last else 32) + (16 if d['enc'] else 0)
            + (8 if d['pkt'] else 0) + (4 if d['chk'] is not None else 0) + (2 if d['trl'] else 0)
            + (0 if d['pad'] == 0 else 1))


def u16(n):
    return bytes([n // 256, n % 256])


def default_sul(seq=1, max_len=8192, ident=b'Default Storage Set'.ljust(60)):
    return {'seq': seq, 'seq_fill': b'0' * (4 - len(str(seq))), 'ver': b'V1.00', 'max_len': max_len,
            'max_fill': b'0' * (5 - len(str(max_len))), 'ident': ident}


def sul_bytes(sul):
    return (sul['seq_fill'] + str(sul['seq']).encode('ascii') + sul['ver'] + b'RECORD'
            + sul['max_fill'] + str(sul['max_len']).encode('ascii') + sul['ident'])


def sul_conformant(sul):
    fill_ok = lambda f: all(c in b'0 ' for c in f)
    v = sul['ver']
    return (sul['seq'] >= 1 and fill_ok(sul['seq_fill']) and len(sul['seq_fill']) + len(str(sul['seq'])) == 4
            and len(v) == 5 and v[:3] == b'V1.' and 48 <= v[3] <= 57 and 48 <= v[4] <= 57
            and VR_MIN <= sul['max_len'] <= VR_MAX and fill_ok(sul['max_fill'])
            and len(sul['max_fill']) + len(str(sul['max_len'])) == 5 and len(sul['ident']) == 60)


def segment_bytes(eflr, typ, first, last, d, data):
    """One logical record segment, preceded by its visible record header when it starts one."""
    out = bytearray()
    if d['vr'] is not None:
        out += u16(d['vr']) + b'\xff\x01'
    out += u16(seg_len(d)) + bytes([attr_byte(eflr, first, last, d), typ])
    out += data + pad_bytes(d)
    if d['chk'] is not None:
        out += bytes(d['chk'])
    if d['trl']:
        out += u16(seg_len(d))
    return bytes(out)


def encode_records(records, layout):
    """The part of the file after the storage unit label. Mirrors `(cutAll recs ℓ.recs).flatMap TSeg.bytes`
    (zip semantics: surplus records or layouts are ignored)."""
    out = bytearray()
    for (eflr, typ, payload), ds in zip(records, layout):
        data = payload
        for k, d in enumerate(ds):
            out += segment_bytes(eflr, typ, k == 0, k == len(ds) - 1, d, data[:d['n']])
            data = data[d['n']:]
    return bytes(out)


def encode_rp66(sul, records, layout) -> bytes:
    return sul_bytes(sul) + encode_records(records, layout)


def seg_ok(d):
    return (d['pad'] < 256 and d['fill'] < 256 and (d['chk'] is None or (d['chk'][0] < 256 and d['chk'][1] < 256))
            and (not d['pkt'] or d['enc']) and seg_len(d) >= SEG_MIN and seg_len(d) % 2 == 0)


def conformant(records, layout) -> bool:
    """Mirror of `Layout.conformant`."""
    if len(records) != len(layout):
        return False
    for (eflr, typ, payload), ds in zip(records, layout):
        if not ds or sum(d['n'] for d in ds) != len(payload) or not typ < 256 or not all(seg_ok(d) for d in ds):
            return False
    r = 0
    for ds in layout:
        for d in ds:
            if d['vr'] is not None:
                L = d['vr']
                if not (r == 0 and VR_MIN <= L <= VR_MAX and 4 + seg_len(d) <= L):
                    return False
                r = L - (4 + seg_len(d))
            else:
                if not (r != 0 and seg_len(d) <= r):
                    return False
                r -= seg_len(d)
    return r == 0


def segment_table(records, layout):
    """Positions implied by the layout: for every record a dict with vr_pos / lrsh_pos of its first segment, the list of
    (vr_pos, vr_len) of the visible records holding its segments, and per-segment (lrsh_pos, seg_len, data_len)."""
    pos = SUL_SIZE
    vr = None
    out = []
    for (eflr, typ, payload), ds in zip(records, layout):
        ent = {'vrs': [], 'segs': []}
        for k, d in enumerate(ds):
            if d['vr'] is not None:
                vr = (pos, d['vr'])
                pos += 4
            if k == 0:
                ent['vr_pos'], ent['lrsh_pos'] = vr[0], pos
            if vr not in ent['vrs']:
                ent['vrs'].append(vr)
            ent['segs'].append((pos, seg_len(d), d['n'] + len(pad_bytes(d))))
            pos += seg_len(d)
        out.append(ent)
    return out


# ------------------------------------------------------------------ random content and layouts

VR_CAPS = [20, 22, 24, 28, 36, 40, 64, 100, 128, 256, 1024, 8192, 16382, 16384]


def random_sul(rng):
    seq = rng.choice([1, 2, 9, 10, 12, 100, 101, 999, 1000, 9999, rng.randint(1, 9999)])
    max_len = rng.choice([20, 21, 99, 100, 1024, 4096, 8190, 8192, 10000, 16384, rng.randint(20, 16384)])
    fillc = lambda k: bytes(rng.choice(b'0 ') for _ in range(k)) if rng.random() < 0.5 else rng.choice([b'0', b' ']) * k
    ident = rng.choice([b'Default Storage Set'.ljust(60), bytes(rng.randrange(256) for _ in range(60)),
                        bytes(rng.randrange(32, 127) for _ in range(60)), b' ' * 60, b'\n' * 60])
    ver = b'V1.' + bytes([rng.randrange(48, 58), rng.randrange(48, 58)]) if rng.random() < 0.3 else b'V1.00'
    return {'seq': seq, 'seq_fill': fillc(4 - len(str(seq))), 'ver': ver, 'max_len': max_len,
            'max_fill': fillc(5 - len(str(max_len))), 'ident': ident}


def random_records(rng, n_records, max_payload):
    recs = []
    for _ in range(n_records):
        k = rng.random()
        if k < 0.15:
            ln = rng.choice([0, 1, 2, 3, 11, 12, 13])
        elif k < 0.7:
            ln = rng.randint(0, max(1, max_payload // 8))
        else:
            ln = rng.randint(0, max_payload)
        mode = rng.random()
        if mode < 0.6:
            payload = bytes(rng.getrandbits(8) for _ in range(ln)) if ln < 4096 else rng.getrandbits(8 * ln).to_bytes(ln, 'big')
        elif mode < 0.8:
            payload = bytes([rng.choice([0, 1, 2, 3, 4, 255])]) * ln      # looks like pad counts
        else:
            payload = bytes((i * 7 + ln) & 0xff for i in range(ln))
        recs.append((rng.random() < 0.5, rng.choice([0, 1, 2, 3, 4, 5, 127, 128, 255, rng.randrange(256)]), payload))
    return recs


def random_layout(rng, records, vr_cap=None, p_flags=0.3, small_cuts=False):
    """A random conformant layout for `records`.

    Visible records are filled up to a cap (fixed `vr_cap`, or drawn per visible record from VR_CAPS / uniformly);
    a visible record is closed early when the space left cannot take another segment or at random.  Every flag
    combination occurs; segment lengths are even and >= 16 through padding (or, for encrypted segments, through the
    choice of the cut)."""
    def new_cap():
        if vr_cap is not None:
            return vr_cap
        return rng.choice(VR_CAPS) if rng.random() < 0.7 else 2 * rng.randint(10, 8192)
    layout = []
    flat = []            # all descriptors in file order
    r = 0                # bytes left in the open visible record
    vr_first = None      # first descriptor of the open visible record
    vr_used = 0

    def close_vr():
        nonlocal r, vr_first, vr_used
        if vr_first is not None:
            vr_first['vr'] = 4 + vr_used
        r, vr_first, vr_used = 0, None, 0

    for (eflr, typ, payload) in records:
        rem = len(payload)
        ds = []
        while not ds or rem > 0:
            chk = (rng.randrange(256), rng.randrange(256)) if rng.random() < p_flags else None
            trl = rng.random() < p_flags
            enc = rng.random() < p_flags / 2
            pkt = enc and rng.random() < 0.5
            o = 4 + (2 if chk else 0) + (2 if trl else 0)
            if r < SEG_MIN or (vr_first is not None and rng.random() < 0.08):
                close_vr()
            if vr_first is None:
                cap = new_cap()
                r = cap - 4
            # payload bytes in this segment
            maxn = min(rem, r - o)
            if small_cuts or rng.random() < 0.5:
                n = rng.randint(0, min(maxn, rng.choice([0, 1, 2, 5, 12, 13, 40, 300, 20000])))
            else:
                n = maxn
            if enc:
                # no pad bytes are written: the cut itself must give an even length >= 16
                if (o + n) % 2:
                    n -= 1
                if n < 0 or o + n < SEG_MIN:
                    enc = pkt = False
            pad_flag_only = 0
            if enc:
                p = 0
                pad_flag_only = rng.choice([0, 0, 1, 3, 200])      # attribute bit may be set on an encrypted segment
            else:
                p = max(0, SEG_MIN - o - n)
                if (o + n + p) % 2:
                    p += 1
                while o + n + p > r:            # does not fit: carry fewer payload bytes
                    n -= 1
                    p = max(0, SEG_MIN - o - n)
                    if (o + n + p) % 2:
                        p += 1
                    if n < 0:
                        raise AssertionError('layout generator: cannot fit a segment')
                if rng.random() < 0.25:           # extra padding
                    extra = 2 * rng.randint(0, 6) if rng.random() < 0.8 else 2 * rng.randint(0, 127)
                    if p + extra <= 255 and o + n + p + extra <= r:
                        p += extra
            d = seg(n, pad=(pad_flag_only if enc else p), fill=rng.choice([0, 0, 1, p & 0xff, rng.randrange(256)]),
                    chk=chk, trl=trl, enc=enc, pkt=pkt, vr=None)
            L = seg_len(d)
            assert L <= r and L >= SEG_MIN and L % 2 == 0, (d, r)
            if vr_first is None:
                vr_first = d
            vr_used += L
            r -= L
            rem -= n
            ds.append(d)
            flat.append(d)
        layout.append(ds)
    close_vr()
    return layout


def simple_layout(records, vr_len=8192):
    """Deterministic plain layout: no flags except padding where needed, visible records filled up to `vr_len`."""
    class _R:
        def random(self): return 1.0
        def choice(self, s): return s[0]
        def randint(self, a, b): return b
        def randrange(self, *a): return 0
    return random_layout(_R(), records, vr_cap=vr_len, p_flags=0.0)


# ------------------------------------------------------------------ driver serialisation (lean/TD/Drivers/C01.lean)

def _hx(b):
    return bytes(b).hex() or '-'


def seg_to_driver(d):
    return ':'.join([str(d['n']), str(d['pad']), str(d['fill']), 'N' if d['chk'] is None else bytes(d['chk']).hex(),
                     '1' if d['trl'] else '0', '1' if d['enc'] else '0', '1' if d['pkt'] else '0',
                     'N' if d['vr'] is None else str(d['vr'])])


def sul_to_driver(sul):
    return ':'.join([str(sul['seq']), _hx(sul['seq_fill']), _hx(sul['ver']), str(sul['max_len']), _hx(sul['max_fill']),
                     _hx(sul['ident'])])


def recs_to_driver(records, layout):
    if not records:
        return '-'
    return ';'.join(','.join(['E' if e else 'I', str(t), _hx(p), '/'.join(seg_to_driver(d) for d in ds)])
                    for (e, t, p), ds in zip(records, layout))


def enc_request(sul, records, layout):
    return f'enc {sul_to_driver(sul)} {recs_to_driver(records, layout)}'


def layout_to_json(layout):
    return [[dict(d, chk=list(d['chk']) if d['chk'] is not None else None) for d in ds] for ds in layout]


def layout_from_json(j):
    return [[dict(d, chk=tuple(d['chk']) if d['chk'] is not None else None) for d in ds] for ds in j]
