"""
LAS content model, generator and layout-parametric printer (Python side).

Shared by C09 (reader), C10 (writer round trip) and later properties that need LAS text.  It mirrors
`lean/TD/TD/C09/Spec.lean` (`LasContent`, `LasLayout`, `print`, `toFile`): the C09 plugin checks on every run that this
printer and the Lean printer produce the same text for the same (content, layout).

content = {'v': [hline..], 'sects': [{'kind': 'H'|'T', 'typ': 'W', 'lines': [hline|str ..]} ..], 'frames': [[cell..]..]}
hline   = {'mnem': str, 'unit': str, 'value': ['i', int] | ['f', m, e] | ['b', 0|1] | ['t', str], 'desc': str}
cell    = ['n', m, e]  (the decimal m*10**e)  |  ['x', str]  (a token that is not a number)
          | ['l', str, m, e]  (a number written as the literal token str, e.g. '123', '-0.00', '+1.5E3', '.5')
layout  = {'v': sectlay, 'sects': [sectlay..], 'a': sectlay, 'rows': [rowlay..], 'tail': [junk..]}
sectlay = {'junk': [junk..], 'lead': n, 'title': str, 'lines': [hpad..]}
hpad    = {'junk': [junk..], 'lead': n, 'a': n, 'b': n, 'c': n, 'd': n, 'e': n, 'k': n}
rowlay  = {'junk': [junk..], 'lead': bools, 'seps': [bools..], 'trail': bools, 'k': n, 'perLine': n}
junk    = ['b'] | ['c', lead, text];   bools = str of '0' (blank) / '1' (TAB)

Everything is JSON-able.  All randomness comes from the `rng` passed in (a `random.Random`).
"""
import re

NULL_DEFAULT = -999.25
_PY_ONLY = re.compile(r'(?i)(?<![A-Za-z0-9_.])[+-]?(inf|infinity|nan)(?![A-Za-z0-9_.])|[0-9]_[0-9]')


def has_python_only_literal(text):
    """True if the text may contain a token that Python's int()/float() accept but the Lean model's grammar does not."""
    return bool(_PY_ONLY.search(text)) or not text.isascii()


def _py_numeric(s):
    for f in (int, float):
        try:
            f(s); return True
        except ValueError:
            pass
    return False


def is_plain_text(s):
    """s is returned unchanged (as a str) by string_to_value: stripped, not a number for Python, not yes/no."""
    return s == s.strip() and not _py_numeric(s) and s.lower() not in ('yes', 'no') and '\n' not in s and s.isascii()


# ------------------------------------------------------------------ printing (mirror of Spec.lean)

def print_int(i):
    return str(i)


def print_num(m, e, k):
    ds = str(abs(m)).rjust(k + 1, '0')
    ip, fp = ds[:len(ds) - k], ds[len(ds) - k:]
    x = e + k
    return ('-' if m < 0 else '') + ip + '.' + fp + ('' if x == 0 else 'e' + str(x))


def print_value(v, k):
    if v[0] == 'i': return print_int(v[1])
    if v[0] == 'f': return print_num(v[1], v[2], k)
    if v[0] == 'b': return 'YES' if v[1] else 'NO'
    return v[1]


def print_cell(c, k):
    return print_num(c[1], c[2], k) if c[0] == 'n' else c[1]      # 'x' bad token, 'l' literal numeric token


def _one_line(s):
    return s.replace('\n', '')


def print_junk(j):
    out = []
    for x in j:
        out.append('\n' if x[0] == 'b' else ' ' * x[1] + '#' + _one_line(x[2]) + '\n')
    return ''.join(out)


HPAD0 = {'junk': [], 'lead': 0, 'a': 0, 'b': 0, 'c': 0, 'd': 0, 'e': 0, 'k': 0}
SECTLAY0 = {'junk': [], 'lead': 0, 'title': '', 'lines': []}
ROWLAY0 = {'junk': [], 'lead': '', 'seps': [], 'trail': '', 'k': 0, 'perLine': 0}


def _at(lst, i, dflt):
    return lst[i] if i < len(lst) else dflt


def print_hline(h, p):
    vt = print_value(h['value'], p['k'])
    body = (h['mnem'] + ' ' * p['a'] + '.' + h['unit'] + (' ' * p['b'] if vt == '' else ' ' * (p['b'] + 1) + vt)
            + ' ' * p['c'] + ':' + ' ' * p['d'] + h['desc'] + ' ' * p['e'])
    return print_junk(p['junk']) + ' ' * p['lead'] + body + '\n'


def print_head(typ, l):
    return print_junk(l['junk']) + ' ' * l['lead'] + '~' + typ + _one_line(l['title']) + '\n'


def print_sect(s, l):
    out = [print_head(s['typ'], l)]
    for i, line in enumerate(s['lines']):
        p = _at(l['lines'], i, HPAD0)
        if s['kind'] == 'H':
            out.append(print_hline(line, p))
        else:
            out.append(print_junk(p['junk']) + ' ' * p['lead'] + line + ' ' * p['e'] + '\n')
    return ''.join(out)


def _blanks(b):
    return ''.join('\t' if c == '1' else ' ' for c in b)


def join_toks(toks, seps):
    out = []
    for i, t in enumerate(toks):
        out.append(t)
        if i + 1 < len(toks):
            out.append(' ' + _blanks(_at(seps, i, '')))
    return ''.join(out)


def print_data_line(toks, r):
    return _blanks(r['lead']) + join_toks(toks, r['seps']) + _blanks(r['trail']) + '\n'


def print_row(row, r, wrap):
    toks = [print_cell(c, r['k']) for c in row]
    if not wrap:
        return print_junk(r['junk']) + print_data_line(toks, r)
    if not toks:
        return ''
    out = [print_junk(r['junk']), print_data_line(toks[:1], r)]
    rest, n = toks[1:], r['perLine'] + 1
    for i in range(0, len(rest), n):
        out.append(print_data_line(rest[i:i + n], r))
    return ''.join(out)


def wrap_of(content):
    """The WRAP flag declared by the version section (second line), as the reader sees it."""
    if len(content['v']) < 2:
        return False
    v = content['v'][1]['value']
    return bool(v[1]) if v[0] in ('i', 'b', 't') else v[1] != 0


def curves_of(content):
    for s in content['sects']:
        if s['typ'] == 'C':
            return s['lines'] if s['kind'] == 'H' else []
    return []


def print_header_only(content, layout):
    """The version and the other sections without any `~A` section (a header-only file is a valid input of the reader)."""
    out = [print_sect({'kind': 'H', 'typ': 'V', 'lines': content['v']}, layout['v'])]
    for i, s in enumerate(content['sects']):
        out.append(print_sect(s, _at(layout['sects'], i, SECTLAY0)))
    return ''.join(out)


def print_las(content, layout):
    out = [print_sect({'kind': 'H', 'typ': 'V', 'lines': content['v']}, layout['v'])]
    for i, s in enumerate(content['sects']):
        out.append(print_sect(s, _at(layout['sects'], i, SECTLAY0)))
    out.append(print_head('A', layout['a']))
    w = wrap_of(content)
    for i, row in enumerate(content['frames']):
        out.append(print_row(row, _at(layout['rows'], i, ROWLAY0), w))
    out.append(print_junk(layout['tail']))
    return ''.join(out)


# ------------------------------------------------------------------ what the reader must return

def _fhex(x):
    x = float(x)
    return (0.0).hex() if x == 0 else x.hex()      # -0.0 and 0.0 are not distinguished


def dec_to_float(m, e):
    """The double nearest to m*10**e (assumed primitive: Python float() is correctly rounded)."""
    return float(f'{m}e{e}')


def canon_value(v):
    if v[0] == 'f': return ['f', _fhex(dec_to_float(v[1], v[2]))]
    if v[0] == 'b': return ['b', 1 if v[1] else 0]
    if v[0] == 'i': return ['i', int(v[1])]
    return ['t', v[1]]


def declared_null(content):
    """The NULL value the well section declares (first NULL line, int or float value), else None."""
    for s in content['sects']:
        if s['typ'] == 'W' and s['kind'] == 'H':
            for h in s['lines']:
                if h['mnem'] == 'NULL':
                    v = h['value']
                    if v[0] == 'i': return float(v[1])
                    if v[0] == 'f': return dec_to_float(v[1], v[2])
                    return None
            break
    return None


def declared_null_line(content):
    """The value of the first NULL line of ~W (any type), or None when there is no such line."""
    for s in content['sects']:
        if s['typ'] == 'W' and s['kind'] == 'H':
            for h in s['lines']:
                if h['mnem'] == 'NULL':
                    return h['value']
            break
    return None


def expected(content, null=NULL_DEFAULT):
    """Canonical structure the reader must produce (floats as hex strings); bad cells become `null`."""
    def eline(h):
        return ['L', ['t', h['mnem']], ['t', h['unit']], canon_value(h['value']), ['t', h['desc']]]
    sections = [['V', [eline(h) for h in content['v']]]]
    for s in content['sects']:
        sections.append([s['typ'], [eline(l) if s['kind'] == 'H' else ['R', l] for l in s['lines']]])
    names = [[['t', h['mnem']], ['t', h['unit']]] for h in curves_of(content)]
    frames = [[_fhex(dec_to_float(c[1], c[2])) if c[0] == 'n' else _fhex(dec_to_float(c[2], c[3])) if c[0] == 'l' else _fhex(null)
               for c in row] for row in content['frames']]
    return {'sections': sections, 'array': {'names': names, 'frames': frames}}


# ------------------------------------------------------------------ tokens for the Lean driver

def _hx(s):
    return s.encode('ascii').hex() or '-'


def _tok_value(v):
    if v[0] == 'i': return ['i', str(v[1])]
    if v[0] == 'f': return ['f', str(v[1]), str(v[2])]
    if v[0] == 'b': return ['b', '1' if v[1] else '0']
    return ['t', _hx(v[1])]


def _tok_hline(h):
    return [_hx(h['mnem']), _hx(h['unit'])] + _tok_value(h['value']) + [_hx(h['desc'])]


def tokens_content(c):
    t = [str(len(c['v']))]
    for h in c['v']: t += _tok_hline(h)
    t.append(str(len(c['sects'])))
    for s in c['sects']:
        t += [s['kind'], _hx(s['typ']), str(len(s['lines']))]
        for l in s['lines']:
            t += _tok_hline(l) if s['kind'] == 'H' else [_hx(l)]
    t.append(str(len(c['frames'])))
    for row in c['frames']:
        t.append(str(len(row)))
        for cell in row:
            t += (['n', str(cell[1]), str(cell[2])] if cell[0] == 'n' else ['l', _hx(cell[1]), str(cell[2]), str(cell[3])]
                  if cell[0] == 'l' else ['x', _hx(cell[1])])
    return t


def _tok_junk(j):
    t = [str(len(j))]
    for x in j:
        t += ['b'] if x[0] == 'b' else ['c', str(x[1]), _hx(x[2])]
    return t


def _tok_hpad(p):
    return _tok_junk(p['junk']) + [str(p[k]) for k in ('lead', 'a', 'b', 'c', 'd', 'e', 'k')]


def _tok_sectlay(l):
    t = _tok_junk(l['junk']) + [str(l['lead']), _hx(l['title']), str(len(l['lines']))]
    for p in l['lines']: t += _tok_hpad(p)
    return t


def _tok_rowlay(r):
    t = _tok_junk(r['junk']) + [r['lead'] or '-', str(len(r['seps']))] + [s or '-' for s in r['seps']]
    return t + [r['trail'] or '-', str(r['k']), str(r['perLine'])]


def tokens_layout(l):
    t = _tok_sectlay(l['v']) + [str(len(l['sects']))]
    for s in l['sects']: t += _tok_sectlay(s)
    t += _tok_sectlay(l['a']) + [str(len(l['rows']))]
    for r in l['rows']: t += _tok_rowlay(r)
    return t + _tok_junk(l['tail'])


# ------------------------------------------------------------------ generation

_MN_FIRST = 'ABCDEFGHIJKLMNOPQRSTUVWXYZabcdefghijklmnopqrstuvwxyz_$%&(['
_MN_REST = _MN_FIRST + '0123456789-+/*)]<>=!?@^|'
_UNIT_CH = 'ABCDEFGHIJKLMNOPQRSTUVWXYZabcdefghijklmnopqrstuvwxyz0123456789/.-%*^()'
_TEXT_CH = 'ABCDEFGHIJKLMNOPQRSTUVWXYZabcdefghijklmnopqrstuvwxyz0123456789 .,:;-_/#~()\t\'"&%+='
_DESC_CH = _TEXT_CH.replace(':', '')
_COMMON_MNEM = ['DEPT', 'GR', 'RHOB', 'NPHI', 'CALI', 'DT', 'SP', 'ILD', 'ILM', 'SFLU', 'TENS', 'ETIM', 'BS', 'PEF', 'BIT', 'CAL', 'DLGR', 'SFL', 'C1', 'C13', 'CGR', 'ACGR', 'CALI']
# includes every key and (stripped) value of LASBase.UNITS_LAS_TO_LIS ('F' -> 'FEET', 'mts' -> 'M   ') and case variants
_COMMON_UNIT = ['M', 'FT', 'F', 'mts', 'FEET', 'f', 'MTS', 'Mts', 'GAPI', 'G/C3', 'V/V', 'US/F', 'OHMM', 'MV', 'IN', 'LBS', 'S', 'K/M3', '1/S', 'DEG.C', '']
_TEXT_VALUES = ['13:45:00', '12-JAN-2012', 'ANY OIL COMPANY INC.', 'WILDCAT #1', '12-34-56-78W5M', 'A.B:C.D', '08:00:30 UTC',
                'One line per frame', 'CWLS LOG ASCII STANDARD - VERSION 2.0', '', 'N/A', 'a : b : c', '1.2.3', '1 2', '12h',
                '0x10', '1e', '--1', '+-2', '1,5', 'yes please', 'NO.', 'e5', '.', '-', '+', '1.5.', '1e5e', 'Y', 'none']


def _word(rng, first, rest, lo, hi):
    n = rng.randint(lo, hi)
    return ''.join([rng.choice(first)] + [rng.choice(rest) for _ in range(n - 1)]) if n else ''


def gen_mnem(rng, used=()):
    while True:
        m = rng.choice(_COMMON_MNEM) if rng.random() < 0.5 else _word(rng, _MN_FIRST, _MN_REST, 1, 8)
        if m and m not in used and is_plain_text(m) and m not in ('DATE', 'TIME'):
            return m


def gen_unit(rng):
    while True:
        u = rng.choice(_COMMON_UNIT) if rng.random() < 0.7 else _word(rng, _UNIT_CH, _UNIT_CH, 0, 6)
        if is_plain_text(u):
            return u


def gen_text(rng, chars, lo=0, hi=30):
    while True:
        t = _word(rng, chars, chars, lo, hi).strip()
        if is_plain_text(t):
            return t


def gen_decimal(rng, max_digits=17, emax=30):
    nd = rng.randint(1, max_digits)
    m = rng.randint(0, 10 ** nd - 1)
    if rng.random() < 0.4: m = -m
    return m, rng.randint(-emax, emax) if rng.random() < 0.5 else -rng.randint(0, min(nd, 6))


def gen_integer(rng):
    """An integer of any magnitude: 1..25 digits, and the neighbourhood of 2**53, 2**63, 2**64 (where float64 and the
    machine integers stop being exact)."""
    k = rng.random()
    if k < 0.35:
        v = rng.choice([2 ** 53, 2 ** 63, 2 ** 64, 2 ** 31, 2 ** 32, 10 ** 15, 10 ** 16, 10 ** 17, 2 ** 24]) + rng.randint(-3, 3)
    elif k < 0.8:
        nd = rng.randint(1, 25)
        v = rng.randint(10 ** (nd - 1) - 1, 10 ** nd)
    else:
        v = rng.choice([0, 1, 2, 7, 100, 999, 12345678901234567, 9007199254740993, 18446744073709551615, 10 ** 12, 10 ** 20])
    return -v if rng.random() < 0.35 else v


def gen_typed_literal(rng):
    """(text, canonical typed value as the harness writes it) for a value/description field, in spellings the content
    printer does not produce: integers with sign / leading zeros at every magnitude, floats, yes/no in any case.
    The reference typing is Python's own int()/float() applied to the text (exact integer, float.hex)."""
    k = rng.randrange(5)
    if k <= 2:
        v = gen_integer(rng)
        t = ('-' if v < 0 else rng.choice(['', '', '+'])) + rng.choice(['', '', '0', '000']) + str(abs(v))
        return t, ['i', int(t)]
    if k == 3:
        c = gen_literal(rng)
        return c[1], ['f', _fhex(float(c[1]))] if not c[1].lstrip('+-').isdigit() else ['i', int(c[1])]
    t = rng.choice(['YES', 'yes', 'Yes', 'yEs', 'NO', 'no', 'No', 'nO'])
    return t, ['b', 1 if t.lower() == 'yes' else 0]


def gen_value(rng):
    r = rng.random()
    if r < 0.2: return ['i', gen_integer(rng) if rng.random() < 0.6 else rng.choice([0, 1, -1, 2, 7, 100, -999, rng.randint(-10 ** 9, 10 ** 9)])]
    if r < 0.45:
        m, e = gen_decimal(rng, emax=rng.choice([5, 30, 330]))
        if rng.random() < 0.03: e = rng.choice([1, -1]) * rng.choice([401, 10 ** 6, 10 ** 12])     # far outside the double range
        return ['f', m, e]
    if r < 0.55: return ['b', rng.randint(0, 1)]
    if r < 0.8: return ['t', rng.choice(_TEXT_VALUES)]
    return ['t', gen_text(rng, _TEXT_CH)]


def gen_hline(rng, used=(), mnem=None, value=None):
    return {'mnem': mnem or gen_mnem(rng, used), 'unit': gen_unit(rng),
            'value': value if value is not None else gen_value(rng),
            'desc': gen_text(rng, _DESC_CH) if rng.random() < 0.8 else ''}


def gen_txt_line(rng):
    while True:
        t = gen_text(rng, _TEXT_CH, 1, 40)
        if t and t[0] not in '#~':
            return t


BAD_TOKENS = ['N/A', '-', 'NULL', 'x', '1.2.3', '--5', '1e', 'e5', '.', '12:30:00', '1,5', '0x1F', '+', 'abc', '*', '1e+', '5-', '#3'[1:] + 'q']


def gen_bad_token(rng):
    while True:
        t = rng.choice(BAD_TOKENS) if rng.random() < 0.7 else _word(rng, _MN_FIRST, _MN_REST, 1, 6)
        if t and not _py_numeric(t) and t[0] not in '#~' and not any(c.isspace() for c in t):
            return t


SPECIAL_WORD_CURVES = [('TIME', 'MS'), ('TIME', 'S'), ('TIME', ''), ('TIME', 'D'), ('TIME', 'hhmmss'), ('TIME', 'HHMMS'),
                       ('DATE', ''), ('DATE', 'HHMMSS'), ('DATE', 'd'), ('DATE', 'DD'), ('ETIM', 'HHMMSS'), ('GR', 'HHMMSS'),
                       ('X', 'D'), ('DEPT', 'D'), ('time', 'HHMMSS'), ('Date', 'D'), ('TIMES', 'HHMMSS'), ('DATES', 'D')]


def gen_literal(rng):
    """A number in one of the spellings of the numeric grammar that the layout styles do not produce."""
    n, a, b = rng.randint(0, 10 ** rng.randint(1, 9)), rng.randint(0, 9999), rng.randint(0, 30)
    sg, sv = rng.choice([('', 1), ('-', -1), ('+', 1)])
    fr = ''.join(rng.choice('0123456789') for _ in range(rng.randint(1, 6)))
    k = rng.randrange(8)
    if k == 7:                                                                           # huge decimal exponents: inf / 0.0 for float()
        x = rng.choice([400, 4000, 999999999, 10 ** 12, 12345678901234567890]) * rng.choice([1, -1])
        return ['l', f'{sg}{a}.{fr}E{x:+d}', sv * int(str(a) + fr), x - len(fr)]
    if k == 0: return ['l', f'{sg}{n}', sv * n, 0]                                   # no decimal point ('.0f')
    if k == 1: return ['l', '-0.' + '0' * len(fr), 0, -len(fr)]                       # negative zero text
    if k == 2: return ['l', f'{sg}{a}E{b}', sv * a, b]
    if k == 3: return ['l', f'{sg}.{fr}', sv * int(fr), -len(fr)]
    if k == 4: return ['l', f'{sg}{n}.', sv * n, 0]
    if k == 5: return ['l', f'{sg}{a}.{fr}e-{b}', sv * int(str(a) + fr), -len(fr) - b]
    return ['l', f'{sg}00{n}.{fr}E+0{b}', sv * int(str(n) + fr), b - len(fr)]


def near_null(rng, nm, ne):
    """A data value close to but different (as a double) from the null nm*10**ne: NULL +- k ulp-ish, NULL*(1 +- 1e-j),
    NULL +- 10**-q.  Falls back to the exact null when the candidate rounds to the same double."""
    k = rng.randrange(3)
    if k == 0:                                   # a few units in a far decimal place (down to the last bits of the double)
        j = rng.randint(2, 14)
        m, e = nm * 10 ** j + rng.choice([-1, 1]) * rng.randint(1, 99), ne - j
    elif k == 1:                                 # relative 1e-2 .. 1e-7
        j = rng.randint(2, 7)
        m, e = nm * 10 ** j + rng.choice([-1, 1]) * nm * rng.randint(1, 9), ne - j
    else:                                        # absolute 0.0001 .. 0.01 (times 1..9)
        q = rng.randint(2, 4)
        e = min(ne, -q)
        m = nm * 10 ** (ne - e) + rng.choice([-1, 1]) * rng.randint(1, 9) * 10 ** (-q - e)
    if dec_to_float(m, e) == dec_to_float(nm, ne):
        return ['n', nm, ne]
    return ['n', m, e]


def gen_content(rng, max_curves=6, max_frames=8, wrap=None, null=None, bad_rate=0.08, allow_bad_x=True):
    """A well-formed content (see Spec.lean `wfContent`).  `wrap`: None = random."""
    if wrap is None:
        wrap = rng.random() < 0.4
    ncur = rng.randint(1, max(1, max_curves))
    nfr = rng.randint(0 if rng.random() < 0.05 else 1, max_frames)
    vers = rng.choice([['f', 12, -1], ['f', 20, -1], ['f', 2, 0], ['i', 2], ['f', 200, -2], ['f', 120, -2]])
    wv = rng.choice([['b', 1], ['i', 1], ['f', 10, -1]]) if wrap else rng.choice([['b', 0], ['i', 0], ['f', 0, 0]])
    v = [gen_hline(rng, mnem='VERS', value=vers), gen_hline(rng, mnem='WRAP', value=wv)]
    v[0]['unit'] = v[1]['unit'] = ''
    for _ in range(rng.choice([0, 0, 0, 1, 2])):
        v.append(gen_hline(rng, used=[h['mnem'] for h in v]))
    # curves
    curves = []
    for i in range(ncur):
        h = gen_hline(rng, used=[c['mnem'] for c in curves], mnem='DEPT' if i == 0 and rng.random() < 0.5 else None)
        if rng.random() < 0.6: h['value'] = ['t', '']
        curves.append(h)
    # the reader's special words (DATE.D and TIME.HHMMSS are text columns) in every combination that is NOT special
    if rng.random() < 0.25:
        i = rng.randrange(ncur)
        mn, un = rng.choice(SPECIAL_WORD_CURVES)
        if mn not in [c_['mnem'] for c_ in curves]:
            curves[i]['mnem'], curves[i]['unit'] = mn, un
    if null is None:
        null = rng.choice([['f', -99925, -2]] * 4 + [['f', -999250, -3], None, ['f', -9999, 0], ['i', -9999], ['f', -99999, -2], ['t', 'none'], ['b', 1],
                           ['i', 0], ['f', 0, 0], ['f', 0, -1], ['f', 0, 3], ['b', 0], ['t', '']])     # falsy-looking NULLs: 0, 0., 0.0, 0.e3, NO, empty
    wl = []
    for mn in ('STRT', 'STOP', 'STEP'):
        m, e = gen_decimal(rng, 8, 3)
        wl.append(gen_hline(rng, mnem=mn, value=['f', m, e]))
    if null is not None:
        wl.append(gen_hline(rng, mnem='NULL', value=null))
    for _ in range(rng.randint(0, 5)):
        wl.append(gen_hline(rng, used=[h['mnem'] for h in wl]))
    sects = [{'kind': 'H', 'typ': 'W', 'lines': wl}, {'kind': 'H', 'typ': 'C', 'lines': curves}]
    if rng.random() < 0.6:
        pl = []
        for _ in range(rng.randint(0, 4)):
            pl.append(gen_hline(rng, used=[h['mnem'] for h in pl]))
        sects.append({'kind': 'H', 'typ': 'P', 'lines': pl})
    if rng.random() < 0.5:
        sects.append({'kind': 'T', 'typ': 'O', 'lines': [gen_txt_line(rng) for _ in range(rng.randint(0, 3))]})
    if rng.random() < 0.25:
        sects.append({'kind': 'T', 'typ': rng.choice('XTBZxq1_'), 'lines': [gen_txt_line(rng) for _ in range(rng.randint(0, 3))]})
    if rng.random() < 0.5:
        rng.shuffle(sects)
    # frames: X strictly monotone (distinct doubles: at most 9 significant digits)
    x0, dx, xe = rng.randint(-10 ** 5, 10 ** 6), rng.choice([1, 5, 25, 125, 1524]) * rng.choice([1, -1]), -rng.randint(0, 3)
    nullf = NULL_DEFAULT if null is None or null[0] not in 'if' else (float(null[1]) if null[0] == 'i' else dec_to_float(null[1], null[2]))
    nm, ne = (null[1], 0) if (null is not None and null[0] == 'i') else (null[1], null[2]) if (null is not None and null[0] == 'f') else (-99925, -2)
    frames = []
    bad_x = allow_bad_x and rng.random() < 0.05
    bad_x_at = rng.randrange(nfr) if (bad_x and nfr) else -1
    for f in range(nfr):
        row = [['n', x0 + f * dx, xe]]
        if f == bad_x_at and all(dec_to_float(x0 + g * dx, xe) != nullf for g in range(nfr)):
            row = [['x', gen_bad_token(rng)]]
        for c in range(1, ncur):
            if rng.random() < bad_rate:
                row.append(['x', gen_bad_token(rng)])
            elif rng.random() < 0.05:
                row.append(rng.choice([['n', nm, ne], ['n', nm * 100, ne - 2], ['n', -99925, -2]]))
            elif rng.random() < 0.08:
                row.append(near_null(rng, nm, ne))
            elif rng.random() < 0.06:
                row.append(gen_literal(rng))
            else:
                m, e = gen_decimal(rng, emax=rng.choice([3, 20, 320]))
                row.append(['n', m, e])
        frames.append(row)
    # an X equal to the null (-999.25) together with a bad X would be a duplicate key: avoided above; also avoid X == -999.25 twice
    return {'v': v, 'sects': sects, 'frames': frames}


_COMMENT_CH = 'ABCDEFGHIJKLMNOPQRSTUVWXYZabcdefghijklmnopqrstuvwxyz0123456789 .:~#-_\t'


def gen_junk(rng, p=0.3):
    j = []
    while rng.random() < p:
        j.append(['b'] if rng.random() < 0.4 else ['c', rng.choice([0, 0, 1, 3]), _word(rng, _COMMENT_CH, _COMMENT_CH, 0, 25)])
    return j


def _pad(rng, style):
    if style == 'tight': return 0
    if style == 'wide': return rng.randint(0, 12)
    return rng.choice([0, 1, 1, 2, 4])


def gen_hpad(rng, style, junk_p):
    return {'junk': gen_junk(rng, junk_p), 'lead': _pad(rng, style), 'a': _pad(rng, style), 'b': _pad(rng, style),
            'c': _pad(rng, style), 'd': _pad(rng, style), 'e': _pad(rng, style), 'k': rng.choice([0, 0, 1, 2, 3, 6])}


def gen_bools(rng, style, tabs):
    n = 0 if style == 'tight' else rng.randint(0, 10) if style == 'wide' else rng.choice([0, 0, 1, 3])
    return ''.join(rng.choice('01') if tabs else '0' for _ in range(n))


def gen_layout(rng, content, style=None):
    style = style or rng.choice(['tight', 'normal', 'normal', 'wide'])
    junk_p = rng.choice([0.0, 0.15, 0.4])
    tabs = rng.random() < 0.5
    titles = {'V': 'ERSION INFORMATION', 'W': 'ELL INFORMATION BLOCK', 'C': 'URVE INFORMATION', 'P': 'ARAMETER', 'O': 'THER',
              'A': '  DEPT  GR  ~x'}

    def sectlay(typ, nlines):
        return {'junk': gen_junk(rng, junk_p), 'lead': _pad(rng, style) if rng.random() < 0.3 else 0,
                'title': rng.choice(['', titles.get(typ, ' user'), _word(rng, _COMMENT_CH, _COMMENT_CH, 0, 12)]),
                'lines': [gen_hpad(rng, style, junk_p) for _ in range(nlines)]}
    ncur = max(len(curves_of(content)), 1)
    rows = [{'junk': gen_junk(rng, junk_p), 'lead': gen_bools(rng, style, tabs),
             'seps': [gen_bools(rng, style, tabs) for _ in range(ncur)], 'trail': gen_bools(rng, style, tabs),
             'k': rng.choice([0, 1, 2, 3, 5]), 'perLine': rng.choice([0, 1, 2, 4, 7, 79])} for _ in content['frames']]
    return {'v': sectlay('V', len(content['v'])), 'sects': [sectlay(s['typ'], len(s['lines'])) for s in content['sects']],
            'a': sectlay('A', 0), 'rows': rows, 'tail': gen_junk(rng, junk_p)}


def canonical_layout(content):
    """One blank everywhere, no junk."""
    return {'v': dict(SECTLAY0), 'sects': [], 'a': dict(SECTLAY0), 'rows': [], 'tail': []}
