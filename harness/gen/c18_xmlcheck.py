"""C18 helper: strict parsing of a generated document with two independent parsers and the strict classification of a
not-well-formed result under the known findings F13 / F20 (see known_findings.d/C18.json).

Used by harness/props/c18.py (writer core) and harness/gen/c18_producers.py (end-to-end producers).
"""
import re

# Characters that XML 1.0 cannot represent at all (production [2] Char excludes them, also as character references).
ILLEGAL_RE = re.compile('[\x00-\x08\x0b\x0c\x0e-\x1f\ud800-\udfff\ufffe\uffff]')
_LXML_CHARREF = re.compile(r'xmlParseCharRef: invalid xmlChar value (\d+)')


def is_xml_char(cp: int) -> bool:
    """XML 1.0 production [2] Char."""
    return cp in (9, 10, 13) or 0x20 <= cp <= 0xD7FF or 0xE000 <= cp <= 0xFFFD or 0x10000 <= cp <= 0x10FFFF


def representable(s: str) -> bool:
    return ILLEGAL_RE.search(s) is None


def parse_both(text: str):
    """Parse `text` (a str as written to a text stream) with lxml (recover=False, no entity/DTD loading, no network)
    and xml.dom.minidom (expat).  Returns a dict:
       ok          both parsers accepted
       lxml_root   the lxml root element or None,  lxml_err  the error string or None
       dom         the minidom Document or None,   dom_err   the error string or None
       enc_err     str if the text could not even be encoded as UTF-8 (lone surrogate written raw), else None
    """
    from lxml import etree
    import xml.dom.minidom
    out = {'ok': False, 'lxml_root': None, 'lxml_err': None, 'dom': None, 'dom_err': None, 'enc_err': None}
    try:
        data = text.encode('utf-8')
    except UnicodeEncodeError as e:
        out['enc_err'] = out['lxml_err'] = out['dom_err'] = f'UnicodeEncodeError: {e.reason}'
        return out
    parser = etree.XMLParser(recover=False, resolve_entities=False, load_dtd=False, no_network=True, huge_tree=True,
                             remove_blank_text=False, strip_cdata=False)
    try:
        out['lxml_root'] = etree.fromstring(data, parser)
    except etree.XMLSyntaxError as e:
        out['lxml_err'] = str(e)
    try:
        out['dom'] = xml.dom.minidom.parseString(data)
    except Exception as e:   # expat.ExpatError
        out['dom_err'] = f'{type(e).__name__}: {e}'
    out['ok'] = out['lxml_root'] is not None and out['dom'] is not None
    return out


def classify_not_wf(res, strings, comment_strings=()):
    """Strict classification of a not-well-formed result.

    F13 only if (a) some input string contains a character XML cannot represent and (b) lxml's error is exactly the
    complaint about a character reference whose number is such a character.
    F20 only if (a) some string passed to comment() contains '--' or ends with '-' and (b) lxml's error is the
    comment-syntax complaint.
    Anything else: None (an unlisted failure -> VIOLATION)."""
    err = res.get('lxml_err') or ''
    m = _LXML_CHARREF.search(err)
    if m and not is_xml_char(int(m.group(1))) and any(not representable(s) for s in strings):
        return 'F13'
    if ('Double hyphen within comment' in err or 'Comment not terminated' in err) and \
            any('--' in s or s.endswith('-') for s in comment_strings):
        return 'F20'
    return None


_XMLNS = 'http://www.w3.org/XML/1998/namespace'


def _qname(e, clark):
    """lxml reports namespaced names in Clark notation {uri}local: map back to the prefixed source name"""
    if not clark.startswith('{'):
        return clark
    uri, local = clark[1:].split('}', 1)
    if uri == _XMLNS:
        return 'xml:' + local
    for pfx, u in e.nsmap.items():
        if u == uri:
            return local if pfx is None else f'{pfx}:{local}'
    return clark


def lxml_events(root):
    """Canonical event list of an lxml tree: ('start', tag, sorted attrs) / ('text', s) / ('end', tag) / ('comment', s)
    / ('pi', target, text); adjacent text merged, empty text dropped.  Names are source names (prefix:local) and
    namespace declarations are reported as xmlns / xmlns:p attributes, as a non-namespace-aware parser reports them."""
    from lxml import etree
    ev = []

    def text(s):
        if s:
            if ev and ev[-1][0] == 'text':
                ev[-1] = ('text', ev[-1][1] + s)
            else:
                ev.append(('text', s))

    def walk(e, parent_ns):
        if e.tag is etree.Comment:
            ev.append(('comment', e.text or ''))
        elif e.tag is etree.ProcessingInstruction:
            ev.append(('pi', e.target, e.text or ''))
        else:
            attrs = [(_qname(e, k), v) for k, v in e.attrib.items()]
            for pfx, uri in e.nsmap.items():
                if parent_ns.get(pfx) != uri:
                    attrs.append(('xmlns' if pfx is None else f'xmlns:{pfx}', uri))
            tag = _qname(e, e.tag)
            ev.append(('start', tag, tuple(sorted(attrs))))
            text(e.text)
            for c in e:
                walk(c, e.nsmap)
                text(c.tail)
            ev.append(('end', tag))
    walk(root, {})
    return ev


def dom_events(doc):
    """Same canonical event list from a minidom Document (document element only)."""
    ev = []

    def text(s):
        if s:
            if ev and ev[-1][0] == 'text':
                ev[-1] = ('text', ev[-1][1] + s)
            else:
                ev.append(('text', s))

    def walk(n):
        if n.nodeType == n.ELEMENT_NODE:
            ev.append(('start', n.tagName, tuple(sorted((a.name, a.value) for a in n.attributes.values()))))
            for c in n.childNodes:
                walk(c)
            ev.append(('end', n.tagName))
        elif n.nodeType in (n.TEXT_NODE, n.CDATA_SECTION_NODE):
            text(n.data)
        elif n.nodeType == n.COMMENT_NODE:
            ev.append(('comment', n.data))
        elif n.nodeType == n.PROCESSING_INSTRUCTION_NODE:
            ev.append(('pi', n.target, n.data))
    walk(doc.documentElement)
    return ev
