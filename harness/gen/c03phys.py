"""A small, conformant RP66V1 physical wrapping used by C03/C04 (the physical layer itself is the subject of C01/C02).

wrap(records, rng) -> bytes
    records: list of (encrypted: bool, is_eflr: bool, lr_type: int, payload: bytes)
    Layout: 80-byte storage unit label, then visible records (length, 0xFF01) each holding one or more logical record
    segments (length, attributes, type, body [+ pad bytes]).  Every logical record is cut into 1..3 segments; a segment
    body is padded (pad count in the last pad byte) so that the segment length is even and at least 16.
"""

SUL = b'   1V1.00RECORD 8192' + b'Default Storage Set'.ljust(60)
assert len(SUL) == 80


def _segment(body, is_eflr, first, last, encrypted, lr_type):
    attr = (0x80 if is_eflr else 0) | (0 if first else 0x40) | (0 if last else 0x20) | (0x10 if encrypted else 0)
    n = len(body)
    pad = 0
    if 4 + n < 16 or (4 + n) % 2:
        pad = max(16 - 4 - n, 1)
        if (4 + n + pad) % 2:
            pad += 1
    if pad:
        attr |= 0x01
        body = body + bytes([0] * (pad - 1) + [pad])
    length = 4 + len(body)
    assert length % 2 == 0 and 16 <= length <= 16380, length
    return length.to_bytes(2, 'big') + bytes([attr, lr_type]) + body


def wrap(records, rng=None, max_seg=4000):
    out = bytearray(SUL)
    vr = bytearray()

    def flush():
        nonlocal vr
        if vr:
            out.extend((len(vr) + 4).to_bytes(2, 'big') + b'\xff\x01' + vr)
            vr = bytearray()

    for encrypted, is_eflr, lr_type, payload in records:
        # cut points
        cuts = []
        if rng is not None and len(payload) > 2 and rng.random() < 0.4:
            k = rng.randint(1, 2)
            cuts = sorted(rng.sample(range(1, len(payload)), min(k, len(payload) - 1)))
        parts, prev = [], 0
        for c in cuts + [len(payload)]:
            parts.append(payload[prev:c]); prev = c
        # respect the maximum segment size
        fine = []
        for p in parts:
            while len(p) > max_seg:
                fine.append(p[:max_seg]); p = p[max_seg:]
            fine.append(p)
        parts = fine
        for i, p in enumerate(parts):
            seg = _segment(p, is_eflr, i == 0, i == len(parts) - 1, encrypted, lr_type)
            if len(vr) + len(seg) + 4 > 8192 or (rng is not None and vr and rng.random() < 0.5):
                flush()
            vr.extend(seg)
    flush()
    return bytes(out)
