"""
C20 translator: regenerate lean/TD/TD/Gen/C20Signatures.lean from the source of
`TotalDepth/util/bin_file_type.py` (+ `util/SEGY.py`, `util/EBCDIC.py`) under the repository root, using `ast` only
(nothing of the repository is imported or executed here).

What is extracted (so that the Lean theorems talk about the table the code really has):
  * FUNCTION_ID_MAP, in order: (function name, label);
  * for every function of the map a `TestKind` with the literals of that function: the magic byte string(s) and read
    length(s), the value it returns, LAS version prefix, BIT constants, `_lis_ver` signatures, `_ascii` read length;
  * the RP66 regular expressions: pattern text and a *shape* (an element of a small fixed family of matchers that the
    model implements), found by comparing the compiled pattern with the reference matcher of each shape on every string
    of the field width over a 12-letter alphabet -- an equivalent rewrite of a pattern keeps its shape, a changed one
    gets another shape or `unknown` (which the model never matches, so proofs and correspondence break);
  * ASCII_PRINTABLE_BYTES; the EBCDIC printable set with its cp500 decoding (SEG-Y card images).
A function whose body no longer has the expected form gets `TestKind.unknown`.
Output is deterministic.
"""
import ast
import itertools
import os
import re
import string


def _const_bytes(node):
    if isinstance(node, ast.Constant) and isinstance(node.value, bytes):
        return node.value
    return None


def _lean_bytes(b):
    return '[' + ', '.join(str(x) for x in b) + ']'


def _lean_str(s):
    out = []
    for ch in s:
        if ch == '"' or ch == '\\':
            out.append('\\' + ch)
        elif 32 <= ord(ch) < 127:
            out.append(ch)
        else:
            out.append('\\x%02x' % ord(ch))
    return '"' + ''.join(out) + '"'


# ---------------------------------------------------------------- shapes of the RP66 field patterns

def _dollar(core):
    return lambda s: core(s) or (s.endswith(b'\n') and core(s[:-1]))


def _pad_num(s):
    r = s.lstrip(b'0 ')
    return len(r) > 0 and r[0] in b'123456789' and all(c in b'0123456789' for c in r[1:])


def _pad_num_nz(s):
    r = s.lstrip(b'0 ')
    return len(r) > 0 and all(c in b'123456789' for c in r)


def _ver(s):
    return len(s) == 5 and s[:2] == b'V1' and s[2] != 10 and all(c in b'0123456789' for c in s[3:])


def _v2c4(s):
    if s[:1] != b'B':
        return False
    r = s[1:]
    d = len(r) - len(r.lstrip(b'123456789'))
    return d > 0 and all(c == 32 for c in r[d:])


def _v2c5(s):
    r = s.lstrip(b' ')
    return len(r) > 0 and all(c in b'123456789' for c in r)


def _v2c6(s):
    r = s.lstrip(b' ')
    return all(c in b'123456789' for c in r)


def _v2date(s):
    return (len(s) == 11 and all(s[i] in b'0123456789' for i in (0, 1, 7, 8, 9, 10)) and s[2] == 45 and s[6] == 45
            and all(65 <= s[i] <= 90 for i in (3, 4, 5)))


SHAPES = [('padNum', _dollar(_pad_num)), ('padNumNoZero', _dollar(_pad_num_nz)), ('ver', _dollar(_ver)), ('v2c4', _dollar(_v2c4)),
          ('v2c5', _dollar(_v2c5)), ('v2c6', _dollar(_v2c6)), ('v2date', _dollar(_v2date))]
ALPHABET = b' 019VB.-A\nx\x00'      # 12 letters: pad, zero, digits, the literals of the patterns, newline, junk


def classify(pattern, width):
    """Shape of a compiled bytes pattern used with `.match` on a field of `width` bytes."""
    m = re.fullmatch(rb'\^([A-Za-z ]+)\$', pattern)
    if m:
        return 'lit ' + _lean_bytes(m.group(1))
    try:
        rx = re.compile(pattern)
    except re.error:
        return 'unknown'
    widths = sorted({max(width - 1, 0), width, width + 1}) if width <= 5 else [width]
    cands = list(SHAPES)
    for w in widths:
        if w <= 5:
            strings = (bytes(t) for t in itertools.product(ALPHABET, repeat=w))
        else:
            # wider fields: every string over a 3-letter sub-alphabet per position class would be too many; use a
            # deterministic structured family instead (all pad/digit/letter runs and single-position substitutions)
            strings = _wide_family(w)
        for s in strings:
            got = rx.match(s) is not None
            cands = [(n, f) for n, f in cands if f(s) == got]
            if not cands:
                return 'unknown'
    return cands[0][0] if len(cands) >= 1 else 'unknown'


def _wide_family(w):
    seen = set()
    base = []
    for k in range(w + 1):
        for a, b in ((b' ', b'1'), (b' ', b'9'), (b'1', b' '), (b'0', b'1'), (b' ', b'0'), (b'B', b'1'), (b'1', b'B')):
            base.append(a * k + b * (w - k))
    base.append(b'B1' + b' ' * (w - 2)); base.append(b'B12' + b' ' * (w - 3)); base.append(b'B' + b' ' * (w - 1))
    if w == 11:
        base += [b'01-JAN-2000', b'31-DEC-1999', b'1-JAN-20000', b'01-jan-2000', b'01/JAN/2000', b'0A-JAN-2000', b'01-JAN-200A']
    for s in base:
        s = s[:w].ljust(w)
        if s not in seen:
            seen.add(s); yield s
        for i in range(w):
            for c in ALPHABET:
                t = s[:i] + bytes([c]) + s[i + 1:]
                if t not in seen:
                    seen.add(t); yield t


# ---------------------------------------------------------------- ast helpers

def _functions(tree):
    return {n.name: n for n in tree.body if isinstance(n, ast.FunctionDef)}


def _returns(fn):
    return [n.value.value for n in ast.walk(fn) if isinstance(n, ast.Return) and isinstance(n.value, ast.Constant) and isinstance(n.value.value, str)]


def _sorted_nodes(fn):
    return sorted((n for n in ast.walk(fn) if hasattr(n, 'lineno')), key=lambda n: (n.lineno, n.col_offset))


def _read_args(fn, env):
    """Integer arguments of every `<file>.read(n)` call, in source order."""
    out = []
    for n in _sorted_nodes(fn):
        if isinstance(n, ast.Call) and isinstance(n.func, ast.Attribute) and n.func.attr == 'read' and len(n.args) == 1:
            try:
                out.append(_eval_int(n.args[0], env))
            except ValueError:
                out.append(None)
    return out


def _eq_bytes(fn):
    """Bytes constants that take part in an `==` comparison, in source order."""
    out = []
    for n in _sorted_nodes(fn):
        if isinstance(n, ast.Compare) and len(n.ops) == 1 and isinstance(n.ops[0], ast.Eq):
            for c in (n.left, n.comparators[0]):
                if _const_bytes(c) is not None:
                    out.append(_const_bytes(c))
    return out


def _read_eq_const(fn, env=None):
    """[(n, sig)] when the function reads once with a constant length and compares with one bytes constant."""
    reads, sigs = _read_args(fn, env or {}), _eq_bytes(fn)
    if len(reads) == 1 and reads[0] is not None and len(sigs) == 1:
        return [(reads[0], sigs[0])]
    return []


def _module_consts(tree):
    """Module-level NAME = <int expr of ints and earlier names>."""
    env = {}
    for n in tree.body:
        tgt = val = None
        if isinstance(n, ast.Assign) and len(n.targets) == 1 and isinstance(n.targets[0], ast.Name):
            tgt, val = n.targets[0].id, n.value
        elif isinstance(n, ast.AnnAssign) and isinstance(n.target, ast.Name) and n.value is not None:
            tgt, val = n.target.id, n.value
        if tgt is None:
            continue
        try:
            v = _eval_int(val, env)
        except ValueError:
            continue
        env[tgt] = v
    return env


def _eval_int(node, env):
    if isinstance(node, ast.Constant) and isinstance(node.value, int) and not isinstance(node.value, bool):
        return node.value
    if isinstance(node, ast.Name) and node.id in env:
        return env[node.id]
    if isinstance(node, ast.BinOp) and isinstance(node.op, (ast.Add, ast.Mult, ast.Sub)):
        a, b = _eval_int(node.left, env), _eval_int(node.right, env)
        return a + b if isinstance(node.op, ast.Add) else a * b if isinstance(node.op, ast.Mult) else a - b
    raise ValueError


def _int_consts(fn, env):
    """All integer constants / known names used in comparisons or read() calls of the function, in source order."""
    out = []
    for n in ast.walk(fn):
        if isinstance(n, ast.Compare):
            for c in [n.left] + n.comparators:
                try:
                    out.append(_eval_int(c, env))
                except ValueError:
                    pass
        if isinstance(n, ast.Call) and isinstance(n.func, ast.Attribute) and n.func.attr == 'read' and n.args:
            try:
                out.append(_eval_int(n.args[0], env))
            except ValueError:
                pass
    return out


def _kind_of(name, fn, fns, env):
    """Lean term of type TestKind for one function of FUNCTION_ID_MAP."""
    try:
        if name in ('_rcd', '_stk', '_cfbf', '_pds', '_xml', '_pdf', '_ps', '_zip', '_tiff', '_exe'):
            cmp_ = _read_eq_const(fn, env)
            rets = [r for r in _returns(fn) if r]
            if len(cmp_) == 1 and len(rets) == 1:
                return 'magic %d %s %s' % (cmp_[0][0], _lean_bytes(cmp_[0][1]), _lean_str(rets[0]))
        elif name == '_jpeg':
            sigs = None
            for n in ast.walk(fn):
                if isinstance(n, ast.Assign) and isinstance(n.value, ast.Tuple) and all(_const_bytes(e) is not None for e in n.value.elts):
                    sigs = [_const_bytes(e) for e in n.value.elts]
            rets = [r for r in _returns(fn) if r]
            src = ast.unparse(fn)
            if sigs and len(rets) == 1 and 'fobj.read(len(sig)) == sig' in src:
                return 'magicAny [%s] %s' % (', '.join(_lean_bytes(s) for s in sigs), _lean_str(rets[0]))
        elif name in ('_lasv12', '_lasv20', '_lasv30'):
            for n in ast.walk(fn):
                if isinstance(n, ast.Call) and isinstance(n.func, ast.Name) and n.func.id == '_las' and len(n.args) == 2 and _const_bytes(n.args[1]) is not None:
                    return 'las %s' % _lean_bytes(_const_bytes(n.args[1]))
        elif name == '_bit':
            reads = _read_args(fn, env)
            third = []
            for n in ast.walk(fn):
                if (isinstance(n, ast.Compare) and len(n.ops) == 1 and isinstance(n.ops[0], ast.NotEq) and isinstance(n.left, ast.Call)
                        and isinstance(n.left.func, ast.Name) and n.left.func.id == '_tif_third_word'):
                    third.append(_eval_int(n.comparators[0], env))
            if len(reads) == 2 and None not in reads and len(third) == 1:
                return 'bit %d %d %d' % (reads[0], third[0], reads[1])
        elif name == '_lis_ver':
            for n in ast.walk(fn):
                if isinstance(n, ast.For) and isinstance(n.iter, ast.Tuple) and all(_const_bytes(e) is not None for e in n.iter.elts):
                    sigs = [_const_bytes(e) for e in n.iter.elts]
                    extra = [m.right.value for m in ast.walk(n) if isinstance(m, ast.BinOp) and isinstance(m.op, ast.Add)
                             and isinstance(m.right, ast.Constant) and isinstance(m.right.value, int)]
                    rets = [r for r in _returns(fn) if r]
                    if len(extra) == 1 and len(rets) == 1:
                        return 'lisVer [%s] %d %s' % (', '.join(_lean_bytes(s) for s in sigs), extra[0], _lean_str(rets[0]))
        elif name == '_ascii':
            reads = _read_args(fn, env)
            rets = [r for r in _returns(fn) if r]
            if len(reads) == 1 and reads[0] is not None and len(rets) == 1:
                return 'ascii %d %s' % (reads[0], _lean_str(rets[0]))
        elif name in ('_rp66v1', '_rp66v1_tif', '_rp66v1_tif_r', '_rp66v2', '_dat', '_segy', '_lis'):
            return {'_rp66v1': 'rp66v1', '_rp66v1_tif': 'rp66v1Tif', '_rp66v1_tif_r': 'rp66v1TifR', '_rp66v2': 'rp66v2',
                    '_dat': 'dat', '_segy': 'segy', '_lis': 'lis'}[name]
    except Exception:
        pass
    return 'unknown'


V1_WIDTH = {'Comment_1': 4, 'Comment_2': 5, 'Comment_3': 6, 'Comment_4': 5}
V2_WIDTH = {'Comment_1': 4, 'Comment_2': 5, 'Comment_3': 6, 'Comment_4': 4, 'Comment_5': 10, 'Comment_6': 10, 'Comment_7': 11, 'Comment_9': 6}


def _regexes(tree):
    out = {}
    for n in tree.body:
        if isinstance(n, ast.Assign) and isinstance(n.targets[0], ast.Name) and n.targets[0].id == 'RE_COMPILED' and isinstance(n.value, ast.Dict):
            for k, v in zip(n.value.keys, n.value.values):
                if isinstance(k, ast.Constant) and isinstance(v, ast.Dict):
                    d = {}
                    for kk, vv in zip(v.keys, v.values):
                        if (isinstance(kk, ast.Constant) and isinstance(vv, ast.Call) and vv.args and _const_bytes(vv.args[0]) is not None):
                            d[kk.value] = _const_bytes(vv.args[0])
                    out[k.value] = d
    return out


def _printable_set(tree):
    """ASCII_PRINTABLE_BYTES = set(bytes(string.printable, 'ascii'))  -> sorted list of codes, or None."""
    for n in tree.body:
        if isinstance(n, ast.Assign) and isinstance(n.targets[0], ast.Name) and n.targets[0].id == 'ASCII_PRINTABLE_BYTES':
            src = ast.unparse(n.value).replace(' ', '')
            if src == "set(bytes(string.printable,'ascii'))":
                return sorted(set(bytes(string.printable, 'ascii')))
            if src == "set(bytes(string.digits+string.ascii_letters+string.punctuation+'\\n\\r\\n','ascii'))":
                return sorted(set(bytes(string.digits + string.ascii_letters + string.punctuation + ' \n\r', 'ascii')))
    return None


def _ebcdic(repo):
    """[(ebcdic code, ascii code)] of EBCDIC_PRINTABLE with the cp500 decoding, and (num cards, card width); None if the source changed form."""
    try:
        t = ast.parse(open(os.path.join(repo, 'src/TotalDepth/util/EBCDIC.py')).read())
        ok = False
        for n in t.body:
            if isinstance(n, ast.Assign) and isinstance(n.targets[0], ast.Name) and n.targets[0].id == 'EBCDIC_PRINTABLE':
                ok = ast.unparse(n.value).replace(' ', '') == "set(string.printable.encode('cp500'))"
        fns = _functions(t)
        ok = ok and "byt.decode('cp500')" in ast.unparse(fns['ebcdic_to_ascii']) and 'len(set(byt) - EBCDIC_PRINTABLE) == 0' in ast.unparse(fns['ebcdic_all_printable'])
        s = ast.parse(open(os.path.join(repo, 'src/TotalDepth/util/SEGY.py')).read())
        env = _module_consts(s)
        if not ok:
            return None
        table = sorted((c.encode('cp500')[0], ord(c)) for c in string.printable)
        return table, env['CARD_IMAGE_EBCDIC_NUM_CARDS'], env['CARD_WIDTH_EBCDIC']
    except Exception:
        return None


def generate(repo):
    path = os.path.join(repo, 'src/TotalDepth/util/bin_file_type.py')
    tree = ast.parse(open(path).read())
    fns = _functions(tree)
    env = _module_consts(tree)
    fmap = []
    for n in tree.body:
        tgt = n.target if isinstance(n, ast.AnnAssign) else (n.targets[0] if isinstance(n, ast.Assign) else None)
        if isinstance(tgt, ast.Name) and tgt.id == 'FUNCTION_ID_MAP' and isinstance(n.value, ast.Tuple):
            for e in n.value.elts:
                if isinstance(e, ast.Tuple) and len(e.elts) == 2 and isinstance(e.elts[0], ast.Name) and isinstance(e.elts[1], ast.Constant):
                    fmap.append((e.elts[0].id, e.elts[1].value))
    rx = _regexes(tree)
    L = []
    L.append('/-')
    L.append('GENERATED by harness/gen/c20_translate.py from src/TotalDepth/util/bin_file_type.py (+ util/SEGY.py, util/EBCDIC.py).')
    L.append('Do not edit: `./check C20` rewrites this file on every run.')
    L.append('-/')
    L.append('namespace TD.C20.Gen')
    L.append('')
    L.append('/-- Shape of an RP66 storage-unit-label field pattern (see `TD.C20.shapeMatch`). -/')
    L.append('inductive Shape where')
    L.append('  | padNum | padNumNoZero | ver | lit (bs : List Nat) | v2c4 | v2c5 | v2c6 | v2date | unknown')
    L.append('  deriving Repr, DecidableEq')
    L.append('')
    L.append('/-- What one function of `FUNCTION_ID_MAP` does, with the literals found in its body. -/')
    L.append('inductive TestKind where')
    L.append('  | magic (n : Nat) (sig : List Nat) (ret : String)        -- `fobj.read(n) == sig`')
    L.append('  | magicAny (sigs : List (List Nat)) (ret : String)       -- `for sig in sigs: fobj.read(len(sig)) == sig`')
    L.append('  | bit (tifLen third block : Nat)')
    L.append('  | las (pfx : List Nat)')
    L.append('  | rp66v1 | rp66v1Tif | rp66v1TifR | rp66v2 | dat | segy')
    L.append('  | lisVer (sigs : List (List Nat)) (extra : Nat) (ret : String)')
    L.append('  | ascii (n : Nat) (ret : String)')
    L.append('  | lis | unknown')
    L.append('  deriving Repr, DecidableEq')
    L.append('')
    L.append('/-- `FUNCTION_ID_MAP`, in order: (function, what it does, label). -/')
    L.append('def tests : List (String × TestKind × String) := [')
    rows = []
    for name, label in fmap:
        kind = _kind_of(name, fns[name], fns, env) if name in fns else 'unknown'
        rows.append('  (%s, .%s, %s)' % (_lean_str(name), kind, _lean_str(label)))
    L.append(',\n'.join(rows))
    L.append(']')
    L.append('')
    L.append('/-- The documented type codes (labels of `FUNCTION_ID_MAP`, in order). -/')
    L.append('def codes : List String := [' + ', '.join(_lean_str(l) for _, l in fmap) + ']')
    L.append('')
    for ver, widths in (('RP66V1', V1_WIDTH), ('RP66V2', V2_WIDTH)):
        d = rx.get(ver, {})
        for key in sorted(widths):
            nm = 're%s_%s' % (ver[-2:], key.replace('Comment_', 'c'))
            if key in d:
                L.append('/-- `RE_COMPILED[%r][%r]` = %s -/' % (ver, key, _lean_str(d[key].decode('latin-1'))))
                L.append('def %s : Shape := .%s' % (nm, classify(d[key], widths[key])))
            else:
                L.append('def %s : Shape := .unknown' % nm)
    L.append('')
    pr = _printable_set(tree)
    L.append('/-- `ASCII_PRINTABLE_BYTES` (sorted). -/')
    L.append('def asciiPrintable : List Nat := ' + _lean_bytes(pr if pr is not None else []))
    L.append('')
    L.append('def tifLenRequired : Nat := %d' % env.get('TIF_LEN_REQUIRED_BYTES', 0))
    L.append('def rp66v1LenWithTif : Nat := %d' % env.get('RP66V1_LEN_WITH_TIFF', 0))
    L.append('')
    eb = _ebcdic(repo)
    L.append('/-- `EBCDIC_PRINTABLE` with its cp500 decoding: (EBCDIC code, ASCII code), sorted. -/')
    L.append('def ebcdicPrintable : List (Nat × Nat) := [' + (', '.join('(%d, %d)' % p for p in eb[0]) if eb else '') + ']')
    L.append('def segyNumCards : Nat := %d' % (eb[1] if eb else 0))
    L.append('def segyCardWidth : Nat := %d' % (eb[2] if eb else 0))
    L.append('')
    L.append('end TD.C20.Gen')
    return '\n'.join(L) + '\n'


def write(repo, lean_dir):
    text = generate(repo)
    d = os.path.join(lean_dir, 'TD', 'Gen')
    os.makedirs(d, exist_ok=True)
    path = os.path.join(d, 'C20Signatures.lean')
    old = open(path).read() if os.path.exists(path) else None
    if old != text:
        tmp = path + '.tmp'
        with open(tmp, 'w') as fh:
            fh.write(text)
        os.replace(tmp, path)
    return path, text
