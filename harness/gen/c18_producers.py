"""C18 end-to-end "producers" oracle (oracle only, no Lean): the real writers of TotalDepth are run on the example
files and on hostile variants of them; every document they write must parse with two independent parsers
(gen.c18_xmlcheck.parse_both) and carry the data it was given unchanged.

  indexxml      RP66V1.IndexXML.write_logical_file_sequence_to_xml: parses; element for element equal to the in-memory
                LogicalIndex (EFLR/Object/Attribute/Value, LogPass/FrameArray/Channel); every RLE block (FrameNumbers,
                LRSH, Xaxis, VisibleRecords) expands -- as datum+stride*i and by repeated addition -- to the indexed list.
  scanhtml      RP66V1.ScanHTML.html_scan_RP66V1_file_data_content: parses; every value / label / object reference held
                in memory is in the page text.   scanhtml_dir: all pages of scan_dir_or_file (indexes included) parse.
  lashtml       LAS.LASToHTML.las_file_to_html: parses; its <td>/<pre> cells equal the LASRead section members.
  lishtml       LIS.LisToHtml.processFile: every page parses (the example files themselves hold NUL bytes: F13; the rest
                of the page is then judged with the illegal references removed); patched strings are in the page text.
  svg           util.plot.SVGWriter driven directly: random nesting, hostile attributes / text, mnemonic-like comments;
                the parsed event stream (both parsers) equals what was written.
  plot          PlotLogs.PlotLogPasses on the example LIS files, and on copies whose PRES table OUTP mnemonic holds '--'
                (it reaches comment(): Plot.py:1299/1309 -> 598) or markup: every .svg and the index.html parse.

Hostile variants: byte patches (same length, inside existing IDENT/ASCII/UNITS payloads resp. printable runs) of the
example DLIS / LIS files, generated LAS 2.0 text, hostile directory names.  A case dict holds the patches themselves, so
replay_case does not depend on the random stream.  A not-well-formed document is classified strictly by
classify_not_wf (F13-xml-illegal-char-reference / None; a comment-syntax error -- the former F20 -- is unlisted).  A producer that *raises* on a hostile input is counted and noted, not failed.
"""
import functools
import io
import os
import re
import shutil
import tempfile

from gen.c18_xmlcheck import parse_both, classify_not_wf, representable, is_xml_char, ILLEGAL_RE

XHTML = '{http://www.w3.org/1999/xhtml}'
SVGNS = '{http://www.w3.org/2000/svg}'
RAISED = []          # distinct (producer:stage, exception type, short message)
_CACHE = {}          # patchable strings per example file

MARKUP = ['<', '>', '&', '<&>', '&amp;', '&#60;', ']]>', '</a>', '<!--', '-->', '--', '<?x?>']
QUOTES = ["'", '"', '\'"', '"\'>', "='"]
LEGAL_WS = ['\t', '\n', '\r', '\r\n']
ILLEGAL_CTRL = ['\x01', '\x0b', '\x1f', '\x08', '\x0c', '\x1b']
DLIS_KINDS = ['markup', 'quotes', 'ws', 'ctrl', 'del', 'nonascii', 'mixed', 'utf8', 'utf8mix']
UTF8_SEQS = [b'\xc2\xb0', b'\xc3\xa9', b'\xc2\xb5', b'\xd0\x96', b'\xe2\x82\xac', b'\xe2\x80\xa8', b'\xe4\xb8\xad',
             b'\xf0\x9f\x98\x80', b'\xf0\x90\x80\x80', b'\xc2\x80', b'\xdf\xbf', b'\xef\xbf\xbd']     # valid 2-, 3-, 4-byte sequences
DLIS_SMALL = ['BASIC_FILE.dlis', 'MINIMAL_FILE.dlis', 'BASIC_FILE_WITH_TWO_VISIBLE_RECORDS_NO_IFLRS.dlis']
DLIS_BIG = '206_05a-_3_DWL_DWL_WIRE_258276498.DLIS'
DLIS_DIR, LAS_DIR, LIS_DIR = 'example_data/RP66V1/data', 'example_data/LAS/data', 'example_data/LIS/data'


# ------------------------------------------------------------------ common helpers

def _abs(rel):
    import core
    return os.path.join(core.REPO, rel)     # never a hard-coded /repo: mutation experiments point REPO at a copy


def _oracle(fn):
    """One oracle evaluation: counted, given a private working directory under ctx.scratch that is removed afterwards."""
    @functools.wraps(fn)
    def wrapper(ctx, case):
        ctx.count('oracle_cases')
        work = tempfile.mkdtemp(prefix=case['op'] + '_', dir=ctx.scratch)
        try:
            return fn(ctx, case, work)
        finally:
            shutil.rmtree(work, ignore_errors=True)
    return wrapper


def _raised(ctx, producer, exc):
    import traceback
    ctx.count('producer_raised_' + producer.split(':')[0])
    where = [f'{os.path.basename(f.filename)}:{f.lineno}' for f in traceback.extract_tb(exc.__traceback__)
             if 'TotalDepth' in f.filename][-1:]
    key = (producer, type(exc).__name__, re.sub(r'0x[0-9a-f]+|\d+', 'N', str(exc))[:120] + ' @ ' + ''.join(where))
    if key not in RAISED:
        RAISED.append(key)
    return True, f'producer raised {type(exc).__name__}: {str(exc)[:160]} (not a well-formedness verdict)'


def _not_wf(ctx, case, res, strings, comment_strings=()):
    """Record a document that did not parse; returns the (holds, detail) pair for replay."""
    finding = classify_not_wf(res, list(strings), list(comment_strings))
    detail = f'not well-formed: lxml: {res["lxml_err"]} | expat: {res["dom_err"]}'
    ctx.fail(case, detail, finding=finding)
    return False, detail + (f' [{finding}]' if finding else '')


def _mismatch(ctx, case, msgs):
    detail = f'{len(msgs)} difference(s) between the document and the data: ' + ' ;; '.join(msgs[:4])
    ctx.fail(case, detail, finding=None)
    return False, detail


def _input(work, case):
    """The input file of a case: the example file itself, or a copy in `work` with the byte patches
    case['edits'] = [[offset, hex], ...] applied (same length, so the file keeps its structure)."""
    if not case['edits']:
        return _abs(case['file'])
    data = bytearray(open(_abs(case['file']), 'rb').read())
    for off, hx in case['edits']:
        new = bytes.fromhex(hx)
        data[off:off + len(new)] = new
    os.makedirs(os.path.join(work, 'in'), exist_ok=True)
    path = os.path.join(work, 'in', os.path.basename(case['file']))
    with open(path, 'wb') as fh:
        fh.write(bytes(data))
    return path


def _hostile_bytes(rng, kind, old):
    """A byte string of len(old) that keeps some of `old` and carries hostile bytes of the given kind."""
    pool = {'markup': [s.encode() for s in MARKUP], 'quotes': [s.encode() for s in QUOTES],
            'ws': [s.encode() for s in LEGAL_WS], 'ctrl': [s.encode() for s in ILLEGAL_CTRL], 'del': [b'\x7f'],
            'nonascii': [b'\x80', b'\xa0', b'\xb0', b'\xb5', b'\xe9', b'\xff'],
            'utf8': UTF8_SEQS,
            'utf8mix': UTF8_SEQS + [b'\xc2', b'\xe2\x82', b'\xff', b'\x80', b'\xc0\xaf', b'\xed\xa0\x80', b'a\xc3\xa9\xe9']}
    if kind == 'mixed':
        pool = pool['markup'] + pool['quotes'] + pool['ws'] + pool['del']
    else:
        pool = pool[kind]
    new = bytearray(old)
    for _ in range(rng.randint(1, 3)):
        tok = rng.choice(pool)[:len(new)]
        at = rng.randint(0, len(new) - len(tok))
        new[at:at + len(tok)] = tok
    return bytes(new)


def _same(doc, data, comment=False):
    """A parsed string equals the string given to the writer.  Where the data cannot be carried verbatim by any writer
    (F13: a character outside XML Char; F20: '--' or a final '-' in a comment) a short replacement of the offending
    characters is accepted, so that a repair of those findings does not turn into a violation here."""
    if doc == data or doc is None:
        return doc == data
    if comment and ('--' in data or data.endswith('-')):
        return re.sub(r'[-\s]', '', doc) == re.sub(r'[-\s]', '', data)
    if not representable(data):
        return re.fullmatch('.{0,8}'.join(re.escape(x) for x in ILLEGAL_RE.split(data)), doc, re.S) is not None
    return False


def _eq(doc, data):
    """Structural equality of parsed and written items (tuples / lists / dicts of strings), strings by _same."""
    if isinstance(data, str) and isinstance(doc, str):
        return _same(doc, data)
    if isinstance(data, (tuple, list)) and isinstance(doc, (tuple, list)) and len(doc) == len(data):
        if len(data) == 2 and data[0] == 'comment' and doc[0] == 'comment':
            return _same(doc[1], data[1], comment=True)
        return all(_eq(a, b) for a, b in zip(doc, data))
    if isinstance(data, dict) and isinstance(doc, dict) and sorted(doc) == sorted(data):
        return all(_eq(doc[k], data[k]) for k in data)
    return doc == data


def _first_diff(what, got, want):
    k = next((k for k in range(min(len(got), len(want))) if not _eq(got[k], want[k])), min(len(got), len(want)))
    return f'{what}[{k}]: document {repr(got[k:k+1])[:300]} data {repr(want[k:k+1])[:300]} ({len(got)} vs {len(want)} items)'


# ------------------------------------------------------------------ 1. RP66V1 IndexXML

def _uvari(n):
    return bytes([n]) if n < 0x80 else bytes([0x80 | (n >> 8), n & 0xff])


def _dlis_strings(logical_index):
    """Every bytes string the index holds in memory: (role, bytes)."""
    out = []
    for lf in logical_index.logical_files:
        for _pos, eflr in lf.eflrs:
            out.append(('set_name', eflr.set.name))
            for obj in eflr.objects:
                out.append(('obname', obj.name.I))
                for a in obj.attrs:
                    out.append(('label', a.label))
                    out.append(('units', a.units))
                    for v in (a.value or []):
                        if isinstance(v, bytes):
                            out.append(('value', v))
                        elif hasattr(v, 'I') and isinstance(v.I, bytes):
                            out.append(('ref', v.I))
    return [(r, s) for r, s in out if s]


def _dlis_targets(rel):
    """Patchable strings of an example file: (role, bytes, [payload offsets])."""
    if rel not in _CACHE:
        from TotalDepth.RP66V1.core import LogicalFile
        data = open(_abs(rel), 'rb').read()
        with LogicalFile.LogicalIndex(_abs(rel)) as li:
            strings = sorted(set(_dlis_strings(li)))
            limit = min([r.logical_record_position.lrsh_position for lf in li.logical_files
                         for refs in lf.iflr_position_map.values() for r in refs] or [len(data)])
            frames = {k.I for lf in li.logical_files for k in lf.iflr_position_map.keys()}   # repeated in every IFLR
        out = []
        for role, s in strings:
            if role == 'label' or s in frames or (len(s) < 3 and role != 'units') or len(s) > 0x3fff:
                continue   # labels steer the reader; very short strings match by accident
            needle = _uvari(len(s)) + s
            offs, at = [], data.find(needle)
            while at != -1 and at < limit:
                offs.append(at + len(needle) - len(s))
                at = data.find(needle, at + 1)
            if offs and len(offs) <= 12:
                out.append((role, s, offs))
        _CACHE[rel] = out
    return _CACHE[rel]


def _gen_dlis_case(rng, rel, kind):
    targets = _dlis_targets(rel)
    if kind in ('utf8', 'utf8mix'):
        # names / labels / units are decoded as ASCII by the writers (a byte >= 0x80 there raises); the byte-transparent
        # path is the one of the *values*
        targets = [t for t in targets if t[0] == 'value' and len(t[1]) >= 4] or targets
    edits, injected, taken = [], [], set()
    for _role, s, offs in rng.sample(targets, min(len(targets), rng.randint(1, 4))):
        new = _hostile_bytes(rng, kind, s)
        span = {p for o in offs for p in range(o - 2, o + len(s))}
        if new != s and not (span & taken):
            taken |= span
            edits += [[o, new.hex()] for o in offs]
            injected.append(new.decode('latin-1'))
    return {'file': rel, 'kind': kind, 'edits': sorted(edits), 'injected': injected}


def _num(text, hexed):
    if hexed:
        return int(text, 0)
    try:
        return int(text)
    except ValueError:
        return float(text)


def _check_rle(elem, expected, hexed, what, msgs):
    """The RLE children of `elem` must expand exactly to `expected` (both expansion orders)."""
    import numpy as np
    if elem is None:
        msgs.append(f'{what}: element missing'); return
    items = list(elem)
    mul, add = [], []
    try:
        for r in items:
            d, s, rep = _num(r.get('datum'), hexed), _num(r.get('stride'), hexed), int(r.get('repeat'))
            v = d
            for i in range(rep + 1):
                mul.append(d + s * i); add.append(v); v = v + s
    except (TypeError, ValueError) as e:
        msgs.append(f'{what}: unreadable RLE ({e})'); return
    if any(r.tag != 'RLE' for r in items) or elem.get('rle_len') != str(len(items)):
        msgs.append(f'{what}: rle_len={elem.get("rle_len")} but {len(items)} RLE children')
    if elem.get('count') != str(len(expected)):
        msgs.append(f'{what}: count={elem.get("count")} expected {len(expected)}')
    for name, got in (('datum+stride*i', mul), ('repeated addition', add)):
        if len(got) != len(expected):
            msgs.append(f'{what}: {name} gives {len(got)} values, expected {len(expected)}'); continue
        for i, (g, e) in enumerate(zip(got, expected)):
            g2 = type(e)(g) if isinstance(e, np.floating) and not isinstance(e, float) else g   # float32 X axis
            if not (g2 == e or (g2 != g2 and e != e)):
                fmt = (lambda x: float(x).hex()) if isinstance(e, (float, np.floating)) else str
                msgs.append(f'{what}[{i}]: {name} gives {fmt(g)} expected {fmt(e)}'); break


def _attrs_equal(elem, expected, what, msgs):
    for k, v in expected.items():
        if not _same(elem.get(k), v):
            msgs.append(f'{what}@{k}: document has {elem.get(k)!r}, data is {v!r}')


def _value_repr(v):
    """(tag, attributes) that must represent one EFLR attribute value -- written independently of IndexXML."""
    from TotalDepth.RP66V1.core import RepCode
    if isinstance(v, RepCode.ObjectName):
        return 'ObjectName', {'O': str(v.O), 'C': str(v.C), 'I': v.I.decode('latin-1')}
    if isinstance(v, bytes):
        return 'Value', {'type': 'bytes', 'value': v.decode('latin-1')}
    if isinstance(v, float):
        return 'Value', {'type': 'float', 'value': repr(float(v))}
    if isinstance(v, int):
        return 'Value', {'type': 'int', 'value': '%d' % v}
    if isinstance(v, RepCode.DateTime):
        return 'Value', {'type': 'TotalDepth.RP66V1.core.RepCode.DateTime', 'value': str(v)}
    return 'Value', {'type': 'unknown', 'value': str(v)}


def _check_index_doc(li, root, private):
    """Differences between the parsed XML index and the in-memory LogicalIndex (list of messages)."""
    L = lambda b: b.decode('latin-1')
    msgs = []
    if root.tag != 'RP66V1FileIndex':
        return [f'root is {root.tag}']
    _attrs_equal(root, {'path': li.id, 'size': str(os.path.getsize(li.id))}, 'root', msgs)
    sul = li.storage_unit_label
    _attrs_equal(root.find('StorageUnitLabel'), {
        'sequence_number': str(sul.storage_unit_sequence_number), 'dlis_version': L(sul.dlis_version),
        'storage_unit_structure': L(sul.storage_unit_structure), 'maximum_record_length': str(sul.maximum_record_length),
        'storage_set_identifier': L(sul.storage_set_identifier)}, 'StorageUnitLabel', msgs)
    lfs = root.findall('LogicalFiles/LogicalFile')
    if len(lfs) != len(li.logical_files) or root.find('LogicalFiles').get('count') != str(len(lfs)):
        return msgs + [f'{len(lfs)} LogicalFile elements for {len(li.logical_files)} logical files']
    for i, (x_lf, lf) in enumerate(zip(lfs, li.logical_files)):
        w = f'LF[{i}]'
        _attrs_equal(x_lf, {'has_log_pass': str(bool(lf.has_log_pass)), 'index': str(i)}, w, msgs)
        kids = list(x_lf)
        n_lp = 1 if lf.has_log_pass else 0
        if [k.tag for k in kids] != ['EFLR'] * len(lf.eflrs) + ['LogPass'] * n_lp:
            msgs.append(f'{w}: children {[k.tag for k in kids][:12]} for {len(lf.eflrs)} EFLRs, log pass {n_lp}'); continue
        for j, (x_e, (pos, eflr)) in enumerate(zip(kids, lf.eflrs)):
            we = f'{w}.EFLR[{j}]'
            _attrs_equal(x_e, {'vr_position': hex(pos.vr_position), 'lrsh_position': hex(pos.lrsh_position),
                               'lr_type': str(eflr.lr_type), 'set_type': L(eflr.set.type), 'set_name': L(eflr.set.name),
                               'object_count': str(len(eflr.objects))}, we, msgs)
            objs = eflr.objects if (private or eflr.lr_type < 128) else []
            if [o.tag for o in x_e] != ['Object'] * len(objs):
                msgs.append(f'{we}: {len(x_e)} children for {len(objs)} objects'); continue
            for x_o, obj in zip(x_e, objs):
                wo = f'{we}.Object[{L(obj.name.I)!r}]'
                _attrs_equal(x_o, {'O': str(obj.name.O), 'C': str(obj.name.C), 'I': L(obj.name.I)}, wo, msgs)
                if [a.tag for a in x_o] != ['Attribute'] * len(obj.attrs):
                    msgs.append(f'{wo}: {len(x_o)} children for {len(obj.attrs)} attributes'); continue
                for x_a, a in zip(x_o, obj.attrs):
                    wa = f'{wo}.{L(a.label)!r}'
                    _attrs_equal(x_a, {'label': L(a.label), 'count': str(a.count), 'rc': str(a.rep_code),
                                       'units': L(a.units)}, wa, msgs)
                    want = [_value_repr(v) for v in (a.value or [])]
                    got = [(v.tag, dict(v.attrib)) for v in x_a]
                    if not _eq(got, want):
                        msgs.append(_first_diff(wa + ' value', got, want))
                    for (tag, at), v in zip(got, a.value or []):
                        if isinstance(v, float) and at.get('type') == 'float' and v == v and float(at['value']) != v:
                            msgs.append(f'{wa}: float {float(v).hex()} reads back {float(at["value"]).hex()}')
        if not n_lp:
            continue
        x_lp, lp = kids[-1], lf.log_pass
        x_fas = list(x_lp)
        if x_lp.get('count') != str(len(lp.frame_arrays)) or [f.tag for f in x_fas] != ['FrameArray'] * len(lp.frame_arrays):
            msgs.append(f'{w}.LogPass: {len(x_fas)} children, count={x_lp.get("count")} for {len(lp.frame_arrays)} frame arrays')
            continue
        for x_fa, fa in zip(x_fas, lp.frame_arrays):
            wf = f'{w}.FrameArray[{L(fa.ident.I)!r}]'
            refs = list(lf.iflr_position_map[fa.ident])
            _attrs_equal(x_fa, {'O': str(fa.ident.O), 'C': str(fa.ident.C), 'I': L(fa.ident.I),
                                'description': L(fa.description), 'x_axis': L(fa.channels[0]._ident.I),
                                'x_units': L(fa.channels[0].units)}, wf, msgs)
            x_chs = x_fa.findall('Channels/Channel')
            if len(x_chs) != len(fa.channels) or x_fa.find('Channels').get('count') != str(len(fa.channels)):
                msgs.append(f'{wf}: {len(x_chs)} Channel elements for {len(fa.channels)} channels'); continue
            for x_c, ch in zip(x_chs, fa.channels):
                _attrs_equal(x_c, {'O': str(ch._ident.O), 'C': str(ch._ident.C), 'I': L(ch._ident.I),
                                   'long_name': L(ch.long_name), 'rep_code': str(ch.rep_code), 'units': L(ch.units),
                                   'shape': ','.join(str(int(v)) for v in ch.shape), 'count': str(ch.count)},
                             f'{wf}.Channel[{L(ch._ident.I)!r}]', msgs)
            x_iflr = x_fa.find('IFLR')
            if x_iflr is None or x_iflr.get('count') != str(len(refs)):
                msgs.append(f'{wf}.IFLR: count {None if x_iflr is None else x_iflr.get("count")} for {len(refs)} IFLRs'); continue
            _check_rle(x_iflr.find('FrameNumbers'), [r.frame_number for r in refs], False, wf + '.FrameNumbers', msgs)
            _check_rle(x_iflr.find('LRSH'), [r.logical_record_position.lrsh_position for r in refs], True, wf + '.LRSH', msgs)
            _check_rle(x_iflr.find('Xaxis'), [r.x_axis for r in refs], False, wf + '.Xaxis', msgs)
    _check_rle(root.find('VisibleRecords'), list(li.visible_record_positions), True, 'VisibleRecords', msgs)
    return msgs


@_oracle
def _do_indexxml(ctx, case, work):
    from TotalDepth.RP66V1 import IndexXML
    from TotalDepth.RP66V1.core import LogicalFile
    path, out = _input(work, case), io.StringIO()
    try:
        with LogicalFile.LogicalIndex(path) as li:
            try:
                IndexXML.write_logical_file_sequence_to_xml(li, out, case['private'])
            except Exception as e:
                return _raised(ctx, 'indexxml:write', e)
            held = {s.decode('latin-1') for _r, s in _dlis_strings(li)}
            arrived = [s for s in case['injected'] if s in held]
            ctx.count('indexxml_injected_strings_held_in_memory', len(arrived))
            res = parse_both(out.getvalue())
            if not res['ok']:
                return _not_wf(ctx, case, res, arrived)
            msgs = _check_index_doc(li, res['lxml_root'], case['private'])
            values = {v for e in res['lxml_root'].iter() for v in e.attrib.values()}
            msgs += [f'injected string {s!r} held in memory but not an attribute value of the document'
                     for s in arrived if case['private'] and representable(s) and s not in values]
    except Exception as e:
        return _raised(ctx, 'indexxml:read', e)
    if msgs:
        return _mismatch(ctx, case, msgs)
    ctx.nontriv(('indexxml', case['file'], case['kind'], case['private'], tuple(map(tuple, case['edits']))))
    return True, f'index of {case["file"]} ({case["kind"]}) parses and equals the data'


def _dlis_cases(ctx, n_hostile):
    for rel in DLIS_SMALL + [DLIS_BIG]:
        yield {'file': f'{DLIS_DIR}/{rel}', 'kind': 'example', 'edits': [], 'injected': []}
    for i in range(n_hostile):
        rel = DLIS_SMALL[i % len(DLIS_SMALL)] if i % 14 else DLIS_BIG     # the big file costs about a second per document
        yield _gen_dlis_case(ctx.rng, f'{DLIS_DIR}/{rel}', DLIS_KINDS[i % len(DLIS_KINDS)])


def _run_indexxml(ctx, cases):
    for case in cases:
        for private in ((True, False) if case['kind'] == 'example' else (ctx.rng.random() < 0.7,)):
            c = dict(case, op='indexxml', private=private)
            _do_indexxml(ctx, c)
            ctx.sample({k: c[k] for k in ('op', 'file', 'kind', 'private', 'injected')}, limit=3)


# ------------------------------------------------------------------ 2. RP66V1 ScanHTML

@_oracle
def _do_scanhtml(ctx, case, work):
    from TotalDepth.RP66V1 import ScanHTML
    from TotalDepth.RP66V1.core import LogicalFile
    from TotalDepth.common import Slice
    path, out = _input(work, case), io.StringIO()
    try:
        with LogicalFile.LogicalIndex(path) as li:
            every = sorted({s.decode('latin-1') for _r, s in _dlis_strings(li)})
            held = sorted({s.decode('latin-1') for r, s in _dlis_strings(li) if r in ('value', 'label', 'ref')})   # always shown
    except Exception as e:
        return _raised(ctx, 'scanhtml:read', e)
    try:
        ScanHTML.html_scan_RP66V1_file_data_content(path, out, False, Slice.Sample(8), False)
    except Exception as e:
        return _raised(ctx, 'scanhtml:write', e)
    res = parse_both(out.getvalue())
    if not res['ok']:
        return _not_wf(ctx, case, res, every)
    text = ''.join(res['lxml_root'].itertext())     # a '\n' in a table cell is written as <br/>
    msgs = [f'string {s!r} held in memory does not appear in the page text' for s in held
            if representable(s) and s.replace('\n', '') not in text]
    if msgs:
        return _mismatch(ctx, case, msgs)
    ctx.nontriv(('scanhtml', case['file'], case['kind'], tuple(map(tuple, case['edits']))))
    return True, f'HTML scan of {case["file"]} ({case["kind"]}) parses and shows the data'


DIR_NAMES = ['plain', 'a&b', "q'uote\"s", 'lt<gt>', 'caf\xe9', 'dash--dir', 'x-', 'three---h', 'f----r']
# hyphen runs of every length 1..8 at the start, in the middle and at the end of an output path component
OUT_NAMES = ['o-ut', 'dash--dir', 'WELL_A---RUN_1', 'd----e', 'a-----b', 'a------b-------c', 'r--------', '-lead', '---lead', 'trail-',
             'trail---', 'a--b---c', 'o&ut']


@_oracle
def _do_scanhtml_dir(ctx, case, top):
    """scan_dir_or_file on <work>/in/<hostile directory name>/MINIMAL_FILE.dlis: every page, the indexes included, must
    parse (ScanHTML.py:839 puts the output path into a comment) and the top index must show the directory names."""
    from TotalDepth.RP66V1 import ScanHTML
    from TotalDepth.common import Slice
    for name in case['dirs']:
        os.makedirs(os.path.join(top, 'in', name))
        shutil.copy(_abs(f'{DLIS_DIR}/MINIMAL_FILE.dlis'), os.path.join(top, 'in', name, 'MINIMAL_FILE.dlis'))
    try:
        # an output path component without an index.html of its own is quoted in a comment of the top level index
        # (ScanHTML.py:839 "... without link to absent <path>/index.html"): put the hostile name there too
        out_root = os.path.join(top, case['outname'], 'out') if case.get('outname') else os.path.join(top, 'out')
        ScanHTML.scan_dir_or_file(os.path.join(top, 'in'), out_root, True, False, Slice.Sample(8), False)
    except Exception as e:
        return _raised(ctx, 'scanhtml_dir:write', e)
    pages = [os.path.join(r, f) for r, _d, fs in os.walk(out_root) for f in fs if f.endswith('.html')]
    ok, details = len(pages) >= len(case['dirs']) + 1, []
    if not ok:
        ctx.fail(case, f'only {len(pages)} page(s) written'); details.append('pages missing')
    for page in sorted(pages):
        res = parse_both(open(page, 'rb').read().decode('utf-8'))
        if not res['ok']:
            ok = False
            details.append(_not_wf(ctx, dict(case, page=os.path.relpath(page, top)), res, case['dirs'], case['dirs'])[1])
        elif os.path.basename(page) == 'index.html' and os.path.dirname(page) == out_root:
            text = ''.join(res['lxml_root'].itertext())
            lost = [n for n in case['dirs'] if n not in text]
            if lost:
                ok = False
                details.append(_mismatch(ctx, case, [f'directory name {n!r} is not in the top level index' for n in lost])[1])
    if ok:
        ctx.nontriv(('scanhtml_dir', tuple(case['dirs'])))
    return ok, ' | '.join(details) or f'{len(pages)} index/scan pages for directories {case["dirs"]} parse'


def _run_scanhtml(ctx, cases):
    for case in cases:
        _do_scanhtml(ctx, dict(case, op='scanhtml'))
    for name in DIR_NAMES:
        _do_scanhtml_dir(ctx, {'op': 'scanhtml_dir', 'dirs': [name] if name == 'plain' else ['plain', name]})
    for name in OUT_NAMES:
        _do_scanhtml_dir(ctx, {'op': 'scanhtml_dir', 'dirs': ['plain'], 'outname': name})


# ------------------------------------------------------------------ 3. LAS -> HTML

LAS_TOKENS = ['A<B', 'R&D', "Q'1", 'X"Y', 'GR>', '<GR>', ']]>', 'A--B', 'E&amp;P', '&#60;', 'caf\xe9', '\xb5s', '\xb0C',
              'A\u2028B', 'N\x85L', 'T\x7fZ', 'T\tB', '\U0001F6E2oil', '</td>', '<!--x', 'x-->', '<?pi?>', '%s', '{0}']
LAS_CTRL = ['C\x01D', 'V\x0bT', 'U\x1fS', 'B\x08S', 'F\x0cF', 'E\x1bC']


def _gen_las_text(rng, ctrl):
    """LAS 2.0 text whose mnemonics, units, values, descriptions and ~O lines carry hostile strings."""
    toks = LAS_TOKENS + (LAS_CTRL if ctrl else [])
    tok = lambda: rng.choice(toks)
    words = lambda n: ' '.join(rng.choice(toks + ['LOG', 'RUN 1', 'x y']) for _ in range(rng.randint(1, n)))
    used = set()

    def mnem(prefix):
        while True:
            m = prefix + tok().replace(' ', '_') + str(rng.randint(0, 99))
            if m not in used:
                used.add(m); return m
    lines = ['~Version Information', ' VERS.   2.0 : CWLS LOG ASCII STANDARD - VERSION 2.0',
             ' WRAP.   NO  : ONE LINE PER DEPTH STEP', '~Well Information', ' STRT.M   1000.0 : START',
             ' STOP.M   1001.5 : STOP', ' STEP.M   0.5 : STEP', ' NULL.   -999.25 : NULL']
    lines += [f' {mnem("W")}.{tok() if rng.random() < .5 else ""}   {words(3)} : {words(4)}' for _ in range(rng.randint(2, 6))]
    curves = [mnem('C') for _ in range(rng.randint(1, 4))]
    lines += ['~Curve Information', f' DEPT.M   : {words(3)}']
    lines += [f' {c}.{tok()}   {words(2) if rng.random() < .3 else ""} : {words(4)}' for c in curves]
    lines += ['~Parameter Information']
    lines += [f' {mnem("P")}.{tok() if rng.random() < .5 else ""}   {words(3)} : {words(4)}' for _ in range(rng.randint(1, 5))]
    lines += ['~Other'] + [f'{words(6)}' for _ in range(rng.randint(1, 4))]
    lines += ['~A'] + [' '.join([f'{1000 + 0.5 * i:.1f}'] + [f'{rng.uniform(-5, 150):.3f}' for _ in curves]) for i in range(4)]
    return '\n'.join(lines) + '\n'


@_oracle
def _do_lashtml(ctx, case, work):
    from TotalDepth.LAS import LASToHTML
    from TotalDepth.LAS.core import LASRead
    from TotalDepth.common import Slice, np_summary
    path, html = _abs(case.get('file') or ''), os.path.join(work, 'out.html')
    if case.get('text') is not None:
        path = os.path.join(work, 'hostile.las')
        with open(path, 'w', encoding='utf-8', newline='') as fh:
            fh.write(case['text'])
    try:
        las = LASRead.LASRead(path, path, raise_on_error=False)
    except Exception as e:
        return _raised(ctx, 'lashtml:read', e)
    try:
        LASToHTML.las_file_to_html(path, html, 'LAS', True, False, Slice.Sample(8))
    except Exception as e:
        return _raised(ctx, 'lashtml:write', e)
    cells, pres, triples = [], [], []
    for sect in las.generate_sections():
        if sect.type != 'A' and sect.type in LASRead.SECT_TYPES_WITH_DATA_LINES:
            cells += [c for m in sect.members for c in (m.mnem, str(m.unit), str(m.valu), str(m.desc))]
        elif sect.type != 'A':
            pres += list(sect.members)
    if las.frame_array is not None:
        triples = [[c.ident, str(c.units), c.long_name] for c in las.frame_array.channels
                   if np_summary.summarise_array(c.array) is not None]
    strings = [s for s in cells + pres + [x for t in triples for x in t] if isinstance(s, str)]
    try:
        text = open(html, 'rb').read().decode('utf-8')
    except UnicodeDecodeError as e:
        ctx.fail(case, f'output file is not UTF-8 although it declares so: {e}'); return False, str(e)
    res = parse_both(text)
    if not res['ok']:
        return _not_wf(ctx, case, res, strings)
    root, msgs = res['lxml_root'], []
    txt = lambda e: ''.join(e.itertext())
    got_cells = [txt(e) for e in root.iter(XHTML + 'td') if e.get('class') == 'las']
    got_pres = [txt(e) for e in root.iter(XHTML + 'pre') if e.get('class') == 'las']
    got_triples = [[txt(c) for c in list(r)[:3]] for r in root.iter(XHTML + 'tr')
                   if len(r) == 17 and all(c.tag == XHTML + 'td' for c in r)]
    for what, got, want in (('section table cells', got_cells, cells), ('~O lines', got_pres, pres),
                            ('array table channel/units/long name', got_triples,
                             [[x.replace('\n', '') for x in t] for t in triples])):
        if not _eq(got, want):
            msgs.append(_first_diff(what, got, want))
    if case.get('text') is not None:
        # decoding policy of the unchanged code (LASRead.py:791 open(path, 'r', errors='replace')): the file is text in the
        # locale's preferred encoding, undecodable bytes become U+FFFD; the ~O lines are held stripped, otherwise verbatim
        import locale
        src = case['text'].encode('utf-8').decode(locale.getpreferredencoding(False), 'replace').split('\n')
        if '~Other' in src and '~A' in src:
            want_o = [l.strip() for l in src[src.index('~Other') + 1:src.index('~A')] if l.strip()]
            if [str(x) for x in pres] != want_o:
                msgs.append(_first_diff('~O lines held by the reader vs the file text decoded by the documented policy',
                                        [str(x) for x in pres], want_o))
    if case.get('text') is not None:   # did the hostile tokens reach the reader at all?
        ctx.count('lashtml_tokens_held_by_reader',
                  sum(1 for t in LAS_TOKENS + LAS_CTRL if t in case['text'] and any(t in s for s in strings)))
    if msgs:
        return _mismatch(ctx, case, msgs)
    ctx.nontriv(('lashtml', case.get('file') or hash(case['text']), case['kind']))
    return True, f'LAS page ({case["kind"]}) parses and its cells equal the section members'


def _run_lashtml(ctx):
    files = sorted(f for f in os.listdir(_abs(LAS_DIR)) if f.lower().endswith('.las'))
    for f in files:
        _do_lashtml(ctx, {'op': 'lashtml', 'file': f'{LAS_DIR}/{f}', 'kind': 'example'})
    for i in range(ctx.n(30, 400)):
        ctrl = i % 5 == 4
        case = {'op': 'lashtml', 'kind': 'ctrl' if ctrl else 'hostile', 'text': _gen_las_text(ctx.rng, ctrl)}
        _do_lashtml(ctx, case)
        if i < 2:
            ctx.sample({'op': 'lashtml', 'kind': case['kind'], 'text_head': case['text'][150:400]}, limit=5)


# ------------------------------------------------------------------ 4. LIS -> HTML

_CHARREF_RUN = re.compile(r'(?:[A-Za-z0-9 _.,/+-]|&#\d{3};)*&#0(?:0[0-8]|1[124-9]|2\d|3[01]);(?:[A-Za-z0-9 _.,/+-]|&#\d{3};)*')
_ILLEGAL_REF = re.compile(r'&#(\d+);')
LIS_PATCH = {'markup': [b'<', b'>', b'&'], 'quotes': [b"'", b'"'], 'ctrl': [b'\x01', b'\x0b', b'\x1f'],
             'nonascii': [b'\xb0', b'\xe9', b'\xff'], 'del': [b'\x7f'], 'utf8': UTF8_SEQS}


def _illegal_strings_from_input(text, raw):
    """Strings of the output around an illegal character reference that occur literally in the input bytes: evidence
    that the *input* holds a character XML cannot represent (what F13 is about)."""
    out = []
    for m in list(_CHARREF_RUN.finditer(text))[:200]:
        s = re.sub(r'&#(\d{3});', lambda k: chr(int(k.group(1))), m.group(0))
        if s.encode('latin-1', 'replace') in raw and s not in out:
            out.append(s)
    return out


def _lis_pages(work, path):
    """Run LisToHtml on one file; {file name: text} of the pages written."""
    from TotalDepth.LIS import LisToHtml
    d = os.path.join(work, 'out')
    LisToHtml.processFile(path, os.path.join(d, os.path.basename(path)), False)
    return {f: open(os.path.join(d, f), 'rb').read().decode('utf-8') for f in sorted(os.listdir(d))
            if f.endswith(('.html', '.svg'))}


def _lis_targets(ctx, rel):
    """Printable runs of the example file that are displayed on its (unpatched) page: [(offset, bytes)]."""
    if ('lis', rel) not in _CACHE:
        raw, work = open(_abs(rel), 'rb').read(), tempfile.mkdtemp(prefix='lisprobe_', dir=ctx.scratch)
        try:
            shown = re.sub(r'<[^>]*>', '\x00', ''.join(_lis_pages(work, _abs(rel)).values()))
        except Exception:
            shown = ''
        shutil.rmtree(work, ignore_errors=True)
        runs = [(m.start(), m.group(0)) for m in re.finditer(rb'[A-Za-z][A-Za-z0-9 ]{5,30}[A-Za-z0-9]', raw)]
        _CACHE[('lis', rel)] = [(o, r) for o, r in runs if r.decode() in shown and raw.count(r) == 1]
    return _CACHE[('lis', rel)]


@_oracle
def _do_lishtml(ctx, case, work):
    path = _input(work, case)
    raw = open(path, 'rb').read()
    try:
        pages = _lis_pages(work, path)
    except Exception as e:
        return _raised(ctx, 'lishtml:write', e)
    if not pages:
        ctx.fail(case, 'LisToHtml wrote no page'); return False, 'no page written'
    ok, details = True, []
    for name, text in pages.items():
        res = parse_both(text)
        if not res['ok']:
            ok = False
            details.append(_not_wf(ctx, dict(case, page=name), res, _illegal_strings_from_input(text, raw))[1])
            if '[F13-xml-illegal-char-reference]' not in details[-1]:
                continue
            # the example files themselves hold NUL bytes (F13): judge the rest of the page without those references
            res = parse_both(_ILLEGAL_REF.sub(lambda m: m.group(0) if is_xml_char(int(m.group(1))) else '', text))
            if not res['ok']:
                details.append(_not_wf(ctx, dict(case, page=name, after='illegal references removed'), res, [])[1])
                continue
        shown = ''.join(res['lxml_root'].itertext())
        # LisToHtml decodes with ('ascii', 'replace'): a byte >= 0x80 is shown as U+FFFD (a decoding policy, not an XML matter)
        found = lambda s: re.search('.{0,8}'.join(re.escape(x) for x in ILLEGAL_RE.split(s)), shown, re.S)   # cf. _same
        lost = [s for s in case['injected'] if not found(s) and not found(s.encode('latin-1').decode('ascii', 'replace'))]
        if lost:
            ok = False
            details.append(_mismatch(ctx, case, [f'patched string {s!r} is not in the page text' for s in lost])[1])
        else:
            ctx.count('lishtml_patched_strings_shown', len(case['injected']))
    if ok:
        ctx.nontriv(('lishtml', case['file'], case['kind'], tuple(map(tuple, case['edits']))))
    return ok, ' | '.join(details) or f'{len(pages)} page(s) of {case["file"]} ({case["kind"]}) parse'


def _run_lishtml(ctx):
    files = sorted(os.listdir(_abs(LIS_DIR)))
    for f in files:
        _do_lishtml(ctx, {'op': 'lishtml', 'file': f'{LIS_DIR}/{f}', 'kind': 'example', 'edits': [], 'injected': []})
    for i in range(ctx.n(12, 120)):
        rel = f'{LIS_DIR}/{files[i % len(files)]}'
        targets, kind = _lis_targets(ctx, rel), sorted(LIS_PATCH)[i % len(LIS_PATCH)]
        edits, injected = [], []
        for off, run in ctx.rng.sample(targets, min(len(targets), ctx.rng.randint(1, 3))):
            new = bytearray(run)
            for _ in range(ctx.rng.randint(1, 2)):
                tok = ctx.rng.choice(LIS_PATCH[kind])
                at = ctx.rng.randint(1, max(1, len(new) - 1 - len(tok)))
                new[at:at + len(tok)] = tok
            edits.append([off, bytes(new).hex()]); injected.append(bytes(new).decode('latin-1'))
        _do_lishtml(ctx, {'op': 'lishtml', 'file': rel, 'kind': kind, 'edits': sorted(edits), 'injected': injected})


# ------------------------------------------------------------------ 5. SVGWriter (direct) and real plots

SVG_TEXT = ['GR', 'DEPT <m>', 'R&D', '"q"', "it's", 'caf\xe9 \xb5 \xb0', 'a\tb', 'l1\nl2', ']]>', '&lt;', '\u2028x', '\x7f',
            '\U0001F6E2']
SVG_COMMENT = [' curve GR ', 'Output SP   START', ' RHOB/NPHI ', ' a - b ', 'DT.US/F (1)']   # no markup: see report
SVG_COMMENT_BAD = [' Output C--I START ', 'NPHI-', 'A--', '--', ' DT - ', '---', ' Output C--- START ', 'GR---X', '----', 'A-----B',
                   '------', '-------x', 'x--------', '--a---b----', '- -- --- -']


def _svg_doc(seed, kind):
    """Drive SVGWriter with a random document; returns (text, expected events, strings, comment strings)."""
    import random
    from TotalDepth.util.plot import SVGWriter, Coord
    rng = random.Random(seed)
    texts = SVG_TEXT + (ILLEGAL_CTRL if kind == 'ctrl' else [])
    tok = lambda: ''.join(rng.choice(texts) for _ in range(rng.randint(1, 2))) or 'x'
    dim = lambda: Coord.Dim(rng.choice([0, 1.5, 72, 1e3]), 'px')
    pt = lambda: Coord.Pt(dim(), dim())
    fd = lambda d: '%.3f%s' % (d.value, d.units)
    strings, comments, ev = [], [], []

    def attrs():
        a = {k: tok() for k in rng.sample(['id', 'class', 'stroke', 'fill', 'stroke-width', 'data-x'], rng.randint(0, 3))}
        strings.extend(a.values()); return a

    def element(xs, depth):
        a, t = attrs(), rng.randrange(8)
        box, p, q = Coord.Box(dim(), dim()), pt(), pt()
        pts = [Coord.Pt(Coord.Dim(rng.randint(0, 99), None), Coord.Dim(rng.randint(0, 99), None))
               for _ in range(rng.randint(0, 3))]
        plist = {'points': ' '.join('%.1f,%.1f' % (x.x.value, x.y.value) for x in pts)}
        name, fixed, el = [
            ('g', {}, lambda: SVGWriter.SVGGroup(xs, a)),
            ('rect', {'x': fd(p.x), 'y': fd(p.y), 'width': fd(box.width), 'height': fd(box.depth)},
             lambda: SVGWriter.SVGRect(xs, p, box, a)),
            ('circle', {'cx': fd(p.x), 'cy': fd(p.y), 'r': fd(box.width)}, lambda: SVGWriter.SVGCircle(xs, p, box.width, a)),
            ('elipse', {'cx': fd(p.x), 'cy': fd(p.y), 'rx': fd(box.width), 'ry': fd(box.depth)},
             lambda: SVGWriter.SVGElipse(xs, p, box.width, box.depth, a)),
            ('line', {'x1': fd(p.x), 'y1': fd(p.y), 'x2': fd(q.x), 'y2': fd(q.y)}, lambda: SVGWriter.SVGLine(xs, p, q, a)),
            ('polyline', plist, lambda: SVGWriter.SVGPolyline(xs, pts, a)),
            ('polygon', plist, lambda: SVGWriter.SVGPolygon(xs, pts, a)),
            ('text', {'font-family': 'Courier', 'font-size': '12', 'x': fd(p.x), 'y': fd(p.y)},
             lambda: SVGWriter.SVGText(xs, p, 'Courier', 12, a)),
        ][t]
        with el():
            ev.append(('start', name, tuple(sorted(dict(fixed, **a).items()))))
            for _ in range(rng.randint(0, 3 if depth < 4 else 0)):
                r = rng.random()
                if r < 0.45:
                    element(xs, depth + 1)
                elif r < 0.8:
                    s = tok(); strings.append(s); xs.characters(s)
                    ev.append(('text', ev.pop()[1] + s) if ev[-1][0] == 'text' else ('text', s))
                else:
                    c = rng.choice(SVG_COMMENT_BAD if kind == 'comment--' and rng.random() < 0.5 else SVG_COMMENT)
                    comments.append(c); xs.comment(c); ev.append(('comment', c))
            ev.append(('end', name))
    out = io.StringIO()
    root_attrs = attrs()
    vp = Coord.Box(dim(), dim())
    with SVGWriter.SVGWriter(out, vp, root_attrs or None) as xs:
        fixed = {'version': '1.1', 'width': fd(vp.width), 'height': fd(vp.depth)}
        ev.append(('start', 'svg', tuple(sorted(dict(fixed, **root_attrs).items()))))
        for _ in range(rng.randint(1, 4)):
            element(xs, 0)
    ev.append(('end', 'svg'))
    return out.getvalue(), ev, strings, comments


def _svg_norm(events):
    """Drop the namespace, the xmlns attribute and the indentation (whitespace-only text) from parsed events."""
    out = []
    for e in events:
        if e[0] == 'text' and not e[1].strip(' \n'):
            continue
        if e[0] in ('start', 'end'):
            e = (e[0], e[1].replace(SVGNS, '')) + ((tuple(kv for kv in e[2] if kv[0] != 'xmlns'),) if e[0] == 'start' else ())
        out.append(e)
    return out


@_oracle
def _do_svg(ctx, case, _work):
    from gen.c18_xmlcheck import lxml_events, dom_events
    try:
        text, ev, strings, comments = _svg_doc(case['seed'], case['kind'])
    except Exception as e:
        return _raised(ctx, 'svg:write', e)
    res = parse_both(text)
    if not res['ok']:
        return _not_wf(ctx, case, res, strings, comments)
    msgs = []
    for who, got in (('lxml', _svg_norm(lxml_events(res['lxml_root']))), ('expat', _svg_norm(dom_events(res['dom'])))):
        got = [(e[0], e[1], tuple(sorted(e[2]))) if e[0] == 'start' else e for e in got]
        if not _eq(got, ev):
            msgs.append(_first_diff(who + ' event', got, ev))
    if msgs:
        return _mismatch(ctx, case, msgs)
    ctx.nontriv(('svg', case['seed'], case['kind']))
    return True, f'SVG document {case["seed"]} ({case["kind"]}) parses to the {len(ev)} events written'


def _run_svg(ctx):
    for i in range(ctx.n(300, 3000)):
        kind = ('clean', 'clean', 'clean', 'ctrl', 'comment--')[i % 5]
        case = {'op': 'svg', 'seed': ctx.rng.getrandbits(48), 'kind': kind}
        _do_svg(ctx, case)
        if i < 1:
            ctx.sample(case, limit=6)


_OUTP = re.compile(rb'EA\x04\x00OUTP    ([A-Z0-9]{3}[A-Z0-9 ])EA')


@_oracle
def _do_plot(ctx, case, work):
    import argparse
    from TotalDepth import PlotLogs
    path, d = _input(work, case), os.path.join(work, 'out')
    opts = argparse.Namespace(recurse=False, keepGoing=True, LgFormat=[], apiHeader=case['api'], LgFormat_min=case['lgmin'],
                              scale=0)
    try:
        info = PlotLogs.PlotLogPasses(path, os.path.join(d, 'p'), opts).plotLogInfo
        if case.get('index'):
            info.writeHTML(os.path.join(d, 'index.html'), path)
    except Exception as e:
        return _raised(ctx, 'plot:write', e)
    names = sorted(f for f in (os.listdir(d) if os.path.isdir(d) else []) if f.endswith(('.svg', '.html')))
    if not names and case['expect_plots']:
        ctx.fail(case, 'no SVG plot was written'); return False, 'no plot written'
    ok, details = True, []
    for name in names:
        text = open(os.path.join(d, name), 'rb').read().decode('utf-8')
        res = parse_both(text)
        if not res['ok']:
            ok = False
            details.append(_not_wf(ctx, dict(case, page=name), res, case['injected'], case['injected'])[1])
    if ok:
        ctx.nontriv(('plot', case['file'], case['api'], case['lgmin'], tuple(map(tuple, case['edits']))))
        ctx.count('plot_documents', len(names))
    return ok, ' | '.join(details) or f'{len(names)} plot file(s) of {case["file"]} parse'


def _run_plot(ctx):
    lis = sorted(os.listdir(_abs(LIS_DIR)))
    base = {'op': 'plot', 'edits': [], 'injected': [], 'index': True}
    combos = [(f, api, 0, True) for f in lis[:2] for api in ((True, False) if ctx.tier == 'thorough' else (True,))]
    if ctx.tier == 'thorough':     # LgFormat XML plot descriptions.  (LAS input cannot be plotted by PlotLogs at all in
        combos += [(f, False, 4, True) for f in lis]   # this version: 'LASRead' object has no attribute 'hasOutpMnem'.)
    for f, api, lgmin, expect in combos:
        _do_plot(ctx, dict(base, file=f'{LIS_DIR}/{f}', kind='example', api=api, lgmin=lgmin, expect_plots=expect))
    for i in range(ctx.n(4, 12)):     # a PRES table whose OUTP mnemonic holds '--', '---', '----' (reaches comment()) or markup
        rel = f'{LIS_DIR}/{lis[i % 2]}'
        found = list(_OUTP.finditer(open(_abs(rel), 'rb').read()))
        first_dummy = min(m.start() for m in found if m.group(1) == b'DUMM')
        m = ctx.rng.choice([m for m in found if m.start() < first_dummy])     # the PRES table that is plotted
        mn = m.group(1)
        new = (ctx.rng.choice([mn[:1] + b'--' + mn[3:], mn[:1] + b'---', b'---' + mn[3:], b'----', mn[:2] + b'--'][i // 2 % 5:][:1])
               if i % 2 == 0 else mn[:1] + ctx.rng.choice([b'<&', b'"\'', b'&-']) + mn[3:])
        _do_plot(ctx, dict(base, file=rel, kind='outp--' if i % 2 == 0 else 'outp-markup', api=False, lgmin=0, expect_plots=True,
                           edits=[[m.start(1), new.hex()]], injected=[new.decode()]))


def run(ctx):
    """All producer oracles (quick about half a minute, thorough a few minutes)."""
    import logging
    logging.disable(logging.CRITICAL)        # the readers log every oddity of a hostile file
    try:
        cases = list(_dlis_cases(ctx, ctx.n(36, 360)))
        _run_indexxml(ctx, cases)
        _run_scanhtml(ctx, cases)
        _run_lashtml(ctx)
        _run_lishtml(ctx)
        _run_svg(ctx)
        _run_plot(ctx)
    finally:
        logging.disable(logging.NOTSET)
    if RAISED:
        ctx.note('producers raised on hostile input (counted, not judged): ' + '; '.join(f'{p}: {t}: {m}' for p, t, m in RAISED))


_OPS = {'indexxml': _do_indexxml, 'scanhtml': _do_scanhtml, 'scanhtml_dir': _do_scanhtml_dir, 'lashtml': _do_lashtml,
        'lishtml': _do_lishtml, 'svg': _do_svg, 'plot': _do_plot}


def replay_case(ctx, case):
    """Re-run one recorded case (the dict given to ctx.fail); returns (holds, detail)."""
    import logging
    logging.disable(logging.CRITICAL)
    try:
        return _OPS[case['op']](ctx, {k: v for k, v in case.items() if k not in ('page', 'after')})
    finally:
        logging.disable(logging.NOTSET)
