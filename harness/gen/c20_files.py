"""
Generators of valid files of every format that `TotalDepth.util.bin_file_type` must recognise (property C20).

Every generator takes a `random.Random` and returns `(bytes, expected_code, recipe)`, where `expected_code` is what the
generator *knows* it encoded (the oracle compares the implementation's answer with it, never with the Lean model) and
`recipe` is a small JSON-able description (layout family + parameters).  The bytes themselves are the replay.

Formats: RP66V1 (any conformant storage unit label, optional TIF wrapping in both byte orders), LIS (written with the
repository's own `LIS.core.File.FileWrite`, starting with a reel/tape/file header, TIF off/on/reversed, any physical
record length and trailer option), LAS 1.2/2.0/3.0 text in several layouts, BIT (encoder from the ReadBIT layout),
DAT text, SEG-Y (EBCDIC card images), RP66V2, LIS verification listings and the plain magic-number formats.
"""
import io
import os
import string
import struct

PRINTABLE = bytes(string.printable, 'ascii')
NAME_CHARS = b'ABCDEFGHIJKLMNOPQRSTUVWXYZ0123456789 ._-/'


def rbytes(rng, n):
    return bytes(rng.getrandbits(8) for _ in range(n)) if n < 64 else rng.getrandbits(8 * n).to_bytes(n, 'little')


def rprintable(rng, n, alphabet=PRINTABLE):
    return bytes(rng.choice(alphabet) for _ in range(n))


# ------------------------------------------------------------------------------------------------ RP66V1

def pad_number(rng, value, width):
    """A positive integer right-justified in `width` characters, padded with blanks and/or zeros (RP66V1 2.3.2)."""
    s = str(value)
    assert len(s) <= width and value > 0
    k = width - len(s)
    style = rng.randrange(3)
    if style == 0:
        pad = ' ' * k
    elif style == 1:
        pad = '0' * k
    else:
        pad = ''.join(rng.choice(' 0') for _ in range(k))
    return (pad + s).encode('ascii')


def rp66v1_sul(rng):
    seq = rng.choice([1, 2, 9, 10, 100, 1000, 9999, rng.randint(1, 9999)])
    mrl = rng.choice([8192, 16384, 4096, 8190, 20, 1, 99999, 10000, rng.randint(1, 99999)])
    ver = b'V1.' + ('%02d' % rng.choice([0, 0, 0, 1, 10, 99, rng.randint(0, 99)])).encode()
    sid_style = rng.randrange(4)
    if sid_style == 0:
        sid = b'Default Storage Set'.ljust(60)
    elif sid_style == 1:
        sid = rprintable(rng, 60)
    elif sid_style == 2:
        sid = b' ' * 60
    else:
        sid = rprintable(rng, rng.randint(0, 60), NAME_CHARS).ljust(60)
    sul = pad_number(rng, seq, 4) + ver + b'RECORD' + pad_number(rng, mrl, 5) + sid
    assert len(sul) == 80
    return sul, {'seq': seq, 'mrl': mrl, 'ver': ver.decode(), 'sid_style': sid_style}


def rp66v1_visible_records(rng, max_total):
    """A plausible body: visible records (length, 0xff, 0x01) holding logical record segments with arbitrary payload."""
    out = bytearray()
    while len(out) < max_total:
        segs = bytearray()
        for _ in range(rng.randint(1, 4)):
            n = rng.choice([0, 2, 16, 100, 1000, rng.randint(0, 4000)]) & ~1
            first = rng.random() < 0.5
            attr = (0x80 if first else 0) | rng.choice([0, 0x20, 0x40, 0x60])
            segs += struct.pack('>HBB', n + 4, attr, rng.choice([0, 1, 3, 4, 5, 127, rng.randrange(256)])) + rbytes(rng, n)
        out += struct.pack('>HBB', len(segs) + 4, 0xff, 1) + segs
        if rng.random() < 0.3:
            break
    return bytes(out)


def gen_rp66v1(rng, bodies=()):
    sul, rec = rp66v1_sul(rng)
    style = rng.randrange(5)
    if style == 0 and bodies:
        body = rng.choice(bodies)            # the records of a real file under a new label
        body = body[:rng.choice([len(body), rng.randint(0, len(body))])]
    elif style == 1:
        body = b''
    elif style == 2:
        body = rbytes(rng, rng.choice([1, 12, 100, 3000, rng.randint(0, 5000)]))
    else:
        body = rp66v1_visible_records(rng, rng.choice([20, 500, 9000, 40000]))
    rec.update(kind='RP66V1', body_style=style, size=80 + len(body))
    return sul + body, 'RP66V1', rec


def gen_rp66v1_tif(rng, reverse):
    """Storage unit label behind a TIF marker (type 0, back 0, next 92)."""
    sul, rec = rp66v1_sul(rng)
    fmt = '>3L' if reverse else '<3L'
    body = rp66v1_visible_records(rng, rng.choice([20, 500, 3000]))
    by = struct.pack(fmt, 0, 0, 92) + sul + struct.pack(fmt, 0, 0, 92 + 12 + len(body)) + body
    rec.update(kind='RP66V1tr' if reverse else 'RP66V1t', size=len(by))
    return by, ('RP66V1tr' if reverse else 'RP66V1t'), rec


# ------------------------------------------------------------------------------------------------ LIS

class _KeepOpen(io.BytesIO):
    def close(self):
        pass


def lis_name(rng, n):
    return rprintable(rng, n, NAME_CHARS)


def lis_file_head(rng, fill):
    """File header logical record (type 128): the 56 byte layout of LIS-79, filler bytes blank or NUL."""
    f = lambda k: fill * k
    return (b'\x80\x00' + lis_name(rng, 10) + f(2) + lis_name(rng, 6) + lis_name(rng, 8) + b'%02d/%02d/%02d' % (
        rng.randint(0, 99), rng.randint(1, 12), rng.randint(1, 28)) + f(1) + b'%5d' % rng.choice([1024, 8192, rng.randint(64, 65535)])
            + f(2) + rng.choice([b'LO', b'CA', b'  ', b'AB']) + f(2) + lis_name(rng, 10))


def lis_reel_tape_head(rng, lr_type, fill):
    f = lambda k: fill * k
    return (bytes([lr_type, 0]) + lis_name(rng, 6) + f(6) + b'%02d/%02d/%02d' % (rng.randint(0, 99), rng.randint(1, 12), rng.randint(1, 28))
            + f(2) + lis_name(rng, 4) + f(2) + lis_name(rng, 8) + f(2) + b'%02d' % rng.randint(1, 99) + f(2) + lis_name(rng, 8) + f(2)
            + rprintable(rng, 74, NAME_CHARS))


def lis_logical_records_of(path):
    """The logical records (bytes) of an existing LIS file, read with the repository's reader."""
    from TotalDepth.LIS.core import File
    fr = File.FileRead(path, path, keepGoing=True)
    out = []
    while not fr.isEOF:
        by = fr.readLrBytes()
        if by is None:
            if fr.isEOF:
                break
            continue
        out.append(bytes(by))
    return out


def reverse_tif(by):
    """Rewrite every TIF marker of a TIF-marked LIS image big-endian ('reversed' markers)."""
    out = bytearray(by)
    pos = 0
    while pos + 12 <= len(by):
        t, b, n = struct.unpack_from('<3L', by, pos)
        struct.pack_into('>3L', out, pos, t, b, n)
        if n <= pos:
            break
        pos = n
    return bytes(out)


def gen_lis(rng, lr_pool=()):
    """A LIS file beginning with a reel, tape or file header, written by `File.FileWrite`."""
    from TotalDepth.LIS.core import File, PhysRec
    fill = rng.choice([b' ', b'\x00'])
    start = rng.choice(['file', 'tape', 'reel'])
    lrs = []
    if start == 'reel':
        lrs.append(lis_reel_tape_head(rng, 132, fill))
    if start in ('reel', 'tape') :
        lrs.append(lis_reel_tape_head(rng, 130, fill))
    if start == 'file' or rng.random() < 0.8:
        lrs.append(lis_file_head(rng, fill))
    body_style = rng.randrange(4)
    if body_style == 0 and lr_pool:
        pool = rng.choice(lr_pool)
        # the records of a real file that follow its own header, any prefix of them
        k = rng.choice([len(pool), rng.randint(0, len(pool)), rng.randint(0, min(len(pool), 12))])
        lrs += [lr for lr in pool[:k] if lr[0] not in (128, 130, 132)]
    elif body_style == 1:
        for _ in range(rng.randint(0, 6)):
            lrs.append(bytes([rng.choice([232, 234, 224, 225, 227, 85, 86, 47, 42]), 0]) + rbytes(rng, rng.choice([0, 1, 7, 80, 500, 3000])))
    elif body_style == 2:
        for _ in range(rng.randint(0, 3)):
            lrs.append(bytes([rng.choice([137, 138, 139, 141]), 0]))
    tail = rng.random() < 0.5
    if tail:
        lrs.append(b'\x81\x00' + lis_file_head(rng, fill)[2:])
    tif = rng.choice(['', 't', 'tr'])
    pr_len = rng.choice([PhysRec.PR_MAX_LENGTH, 1024, 8192, 256, 140, 64, rng.randint(16, 4000)])
    prt = PhysRec.PhysRecTail(hasRecNum=rng.random() < 0.3, fileNum=rng.choice([None, None, 1, 255]), hasCheckSum=rng.random() < 0.3)
    buf = _KeepOpen()
    fw = File.FileWrite(buf, 'gen', keepGoing=False, hasTif=bool(tif), thePrLen=pr_len, thePrt=prt)
    for lr in lrs:
        fw.write(lr)
    fw.close()
    by = buf.getvalue()
    if tif == 'tr':
        by = reverse_tif(by)
    first_pr = min(pr_len, 4 + len(lrs[0]) + prt.prtLen)
    rec = {'kind': 'LIS' + tif, 'start': start, 'fill': fill.hex(), 'body_style': body_style, 'records': len(lrs), 'pr_len': pr_len,
           'prt_len': prt.prtLen, 'first_pr': first_pr, 'size': len(by)}
    return by, 'LIS' + tif, rec


# ------------------------------------------------------------------------------------------------ LAS

LAS_VERSION_VALUES = {'1.2': ['1.2', '1.20', '1.2000'], '2.0': ['2.0', '2.00', '2.0000'], '3.0': ['3.0', '3.00']}


def gen_las(rng, version, tails=()):
    """LAS text whose version section says `version`; several layouts of the first two lines and of what precedes them."""
    nl = rng.choice(['\n', '\r\n'])
    sp = lambda lo, hi: ' ' * rng.randint(lo, hi) if rng.random() < 0.8 else '\t' * max(lo, 1) if hi else ''
    head = rng.choice(['~V', '~Version Information', '~VERSION INFORMATION', '~VERSION INFORMATION SECTION', '~Version ---------------------',
                       '~V' + rprintable(rng, rng.randint(0, 30), NAME_CHARS).decode()])
    value = rng.choice(LAS_VERSION_VALUES[version])
    desc = rng.choice(['CWLS LOG ASCII STANDARD -VERSION ' + version, 'CWLS log ASCII Standard', '', 'x', rprintable(rng, rng.randint(0, 60), NAME_CHARS).decode()])
    vers = rng.choice(['', ' ', '  ']) * (rng.random() < 0.3) + 'VERS' + sp(0, 3) + '.' + sp(1, 12) + value + sp(0, 12) + ':' + sp(0, 3) + desc
    wrap = 'WRAP.' + sp(1, 12) + rng.choice(['NO', 'YES']) + sp(0, 12) + ':' + sp(0, 3) + rng.choice(['One line per depth step', 'Multiple lines per depth step', ''])
    pre = []
    for _ in range(rng.choice([0, 0, 0, 1, 2, 5])):
        pre.append(rng.choice(['', '   ', '# ' + rprintable(rng, rng.randint(0, 40), NAME_CHARS).decode(), '#', '\t']))
    mid = [rng.choice(['', '# comment', '  '])] if rng.random() < 0.2 else []
    # the position of the version line must not matter: long runs of comment / blank lines (several KB) before ~V
    # and between ~V and VERS ("the answer does not depend on the file's data content or size")
    if rng.random() < 0.15:
        big = ['#' + rprintable(rng, rng.randint(30, 120), NAME_CHARS).decode() if rng.random() < 0.8 else ' ' * rng.randint(0, 80)
               for _ in range(rng.choice([12, 40, 150, 600]))]
        if rng.random() < 0.5:
            pre = pre + big
        else:
            mid = mid + big
    lines = pre + [head + (sp(0, 4) if rng.random() < 0.3 else '') + ('  # trailing comment' if rng.random() < 0.1 else '')] + mid + [vers, wrap]
    body_style = rng.randrange(4)
    if body_style == 0 and tails:
        rest = rng.choice(tails)
        rest = rest[:rng.choice([len(rest), rng.randint(0, len(rest))])]
    elif body_style == 1:
        rest = b''
    else:
        n_ch = rng.randint(1, 6)
        rl = ['~Well Information', 'STRT.M   %.4f : START' % rng.uniform(0, 5000), 'STOP.M   %.4f : STOP' % rng.uniform(0, 5000),
              'STEP.M   0.1250 : STEP', 'NULL.   -999.25 : NULL', '~Curve Information', 'DEPT.M   : DEPTH']
        rl += ['C%d  .X   : curve' % i for i in range(n_ch)]
        rl += ['~A']
        for r in range(rng.choice([0, 1, 10, 200, 2000])):
            rl.append(' '.join('%.4f' % rng.uniform(-1000, 1000) for _ in range(n_ch + 1)))
        rest = (nl.join(rl) + nl).encode('ascii')
    text = nl.join(lines).encode('ascii') + (nl.encode() if rng.random() < 0.95 else b'') + rest
    rec = {'kind': 'LAS' + version, 'head': head, 'vers_line': vers, 'pre': len(pre), 'nl': nl.encode().hex(), 'body_style': body_style, 'size': len(text)}
    return text, 'LAS' + version, rec


# ------------------------------------------------------------------------------------------------ BIT

def _bit_float(rng):
    return rbytes(rng, 4)


def gen_bit(rng):
    """Dresser Atlas BIT image: TIF markers (little endian words) around a 276 byte description block, frame blocks,
    a type-1 marker after each log pass and a second one at the end (layout documented in BIT/ReadBIT.py)."""
    reverse = rng.random() < 0.25
    fmt = '>3L' if reverse else '<3L'
    out = bytearray()
    prev = 0

    def block(payload, typ=0):
        nonlocal prev
        pos = len(out)
        nxt = pos + 12 + len(payload)
        out.extend(struct.pack(fmt, typ, prev, nxt))
        out.extend(payload)
        prev = pos

    for _ in range(rng.randint(1, 3)):
        n_ch = rng.randint(1, 20)
        desc = rprintable(rng, 72, NAME_CHARS) + rbytes(rng, 5) + rprintable(rng, 75, NAME_CHARS) + rbytes(rng, 8)
        names = b''.join(rprintable(rng, 4, b'ABCDEFGHIJKLMNOPQRSTUVWXYZ ') for _ in range(n_ch)).ljust(80)
        first = rbytes(rng, 4) + desc + struct.pack('>H', n_ch) + b'\x00\x00' + names + b''.join(_bit_float(rng) for _ in range(5)) + rbytes(rng, 8)
        assert len(first) == 276
        block(first)
        for _ in range(rng.choice([0, 1, 5, 40])):
            block(rbytes(rng, n_ch * 64))
        block(b'', typ=1)
    block(b'', typ=1)
    by = bytes(out)
    return by, 'BIT', {'kind': 'BIT', 'reverse': reverse, 'size': len(by)}


# ------------------------------------------------------------------------------------------------ DAT

DAT_CHANNELS = [('WAC', 'Wits Activity Code', 'unitless'), ('BDIA', 'Bit Diameter', 'inch'), ('DBTM', 'Bit Depth', 'm'),
                ('ROP', 'Rate of Penetration', 'm/hr'), ('HKLD', 'Hookload', 'klb'), ('C1', 'Methane', 'ppm'), ('EPEN', 'Neo-Pentane', 'ppm'),
                ('TQ2', 'Torque (max)', 'kft.lb'), ('N2', 'n 2', '%')]
MONTHS = ['Jan', 'Feb', 'Mar', 'Apr', 'May', 'Jun', 'Jul', 'Aug', 'Sep', 'Oct', 'Nov', 'Dec']


def gen_dat(rng):
    nl = rng.choice(['\n', '\r\n'])
    sep = rng.choice([' ', '\t'])
    k = rng.randint(0, len(DAT_CHANNELS))
    chans = rng.sample(DAT_CHANNELS, k)
    decl = [('UTIM', 'Unix Time', 'sec'), ('DATE', 'Date', 'ddmmyy'), ('TIME', 'Time', 'hhmmss')] + chans
    declared = list(decl)
    if rng.random() < 0.3:
        declared.append(('XTRA', 'Declared but absent', 'm'))     # declared without data: allowed
    if rng.random() < 0.3:
        rng.shuffle(declared)                                      # order of section 1 is ignored
    lines = [sep.join([a] + b.split() + [c]) + (' ' * rng.randint(0, 2)) for a, b, c in declared]
    lines.append((sep * rng.randint(1, 3)).join(a for a, _, _ in decl))
    t0 = rng.randint(0, 2 * 10**9)
    for r in range(rng.choice([1, 2, 10, 300])):
        t = t0 + 10 * r
        dstyle = rng.randrange(3)
        d = rng.randint(1, 28); m = rng.choice(MONTHS); y = rng.randint(0, 99)
        date = ('%02d%s%02d' % (d, m, y), '%d%s%02d' % (d, m, y), '%d-%s-%02d' % (d, m, y))[dstyle]
        tm = '%02d-%02d-%02d' % (rng.randint(0, 23), rng.randint(0, 59), rng.randint(0, 59))
        vals = [rng.choice(['0', '8.50', '-999.25', '1e3', '%.3f' % rng.uniform(-1e4, 1e4)]) for _ in chans]
        lines.append(sep.join([str(t), date, tm] + vals) + (' ' if rng.random() < 0.2 else ''))
    text = (nl.join(lines) + (nl if rng.random() < 0.9 else '')).encode('ascii')
    return text, 'DAT', {'kind': 'DAT', 'channels': k, 'nl': nl.encode().hex(), 'sep': sep.encode().hex(), 'size': len(text)}


# ------------------------------------------------------------------------------------------------ SEG-Y and the rest

def gen_segy(rng):
    cards = []
    for i in range(40):
        style = rng.randrange(3) if i < 9 else 0
        num = ('%02d' % (i + 1), ' %d' % (i + 1), '%d ' % (i + 1))[style]
        cards.append(('C' + num + rprintable(rng, 77, NAME_CHARS).decode()))
    by = ''.join(cards).encode('cp500') + rbytes(rng, rng.choice([0, 400, 5000]))
    return by, 'SEGY', {'kind': 'SEGY', 'size': len(by)}


def gen_rp66v2(rng):
    def num(width, lead=' '):
        s = ''.join(rng.choice('123456789') for _ in range(rng.randint(1, width)))
        return s.rjust(width, lead).encode()
    date = ('%02d-%s-%04d' % (rng.randint(1, 28), rng.choice(MONTHS).upper(), rng.randint(1900, 2100))).encode()
    c4 = (b'B' + ''.join(rng.choice('123456789') for _ in range(rng.randint(1, 3))).encode()).ljust(4)
    c6 = rng.choice([b' ' * 10, num(10)])
    by = num(4) + b'V1.' + b'%02d' % rng.randint(0, 99) + b'RECORD' + c4 + num(10) + c6 + date + rprintable(rng, 12, NAME_CHARS) + b'      ' + rprintable(rng, 60)
    assert len(by) == 128
    by += rbytes(rng, rng.choice([0, 10, 1000]))
    return by, 'RP66V2', {'kind': 'RP66V2', 'size': len(by)}


def gen_lisver(rng):
    lead = rng.choice([b'', b'\n', b'\r\n', b' \n', b'\n\n  ', b'\t'])
    sig = rng.choice([b'=LIS VERIFICATION by PETROLOG rev ', b'=LIS VERIFICATION BY PETROLOG REVISION '])
    by = lead + sig + rprintable(rng, rng.choice([0, 5, 100, 2000]))
    return by, 'LISVER', {'kind': 'LISVER', 'lead': lead.hex(), 'size': len(by)}


MAGIC = {
    'RCD': b'\x04\x00\x00\x00\x00\x00\x00\x00\xff\xff\xff\xff\x00\x00\x00\x00',
    'STK': b'\x04\x00\x00\x00\x01\x00\x00\x00\x04\x00\x00\x00',
    'CFBF': b'\xd0\xcf\x11\xe0\xa1\xb1\x1a\xe1',
    'PDS': b'\x01\x19\xf1\xf8\xff\x82\x03\x84',
    'XML': b'<?xml ',
    'PDF': b'%PDF-',
    'PS': b'%!Ps-',
    'ZIP': b'PK\x03\x04',
    'TIFF': b'II*\x00',
    'JPEG': [b'\xFF\xD8\xFF\xDB', b'\xFF\xD8\xFF\xE0\x00\x10\x4A\x46\x49\x46\x00\x01', b'\xFF\xD8\xFF\xEE'],
}


def gen_magic(rng, code):
    sig = MAGIC[code]
    if isinstance(sig, list):
        sig = rng.choice(sig)
    tail_style = rng.randrange(3)
    tail = (b'', rbytes(rng, rng.choice([1, 30, 400, 4000])), rprintable(rng, rng.choice([1, 30, 400])))[tail_style]
    by = sig + tail
    return by, code, {'kind': code, 'size': len(by)}


def gen_ascii(rng):
    """Plain 7-bit text that is none of the text formats."""
    n = rng.choice([0, 1, 10, 255, 256, 257, 5000])
    by = rprintable(rng, n, b'abcdefghijklmnopqrstuvwxyz ,.;\n')
    return by, 'ASCII', {'kind': 'ASCII', 'size': n}


def example_files(repo):
    """(path, expected code) of the bundled example data."""
    d = os.path.join(repo, 'example_data')
    out = []
    for sub, code in (('RP66V1', 'RP66V1'), ('LIS', 'LIS'), ('LAS', None), ('BIT', 'BIT'), ('DAT', 'DAT')):
        dd = os.path.join(d, sub, 'data')
        if os.path.isdir(dd):
            for name in sorted(os.listdir(dd)):
                out.append((os.path.join(dd, name), code))
    for sub in ('BIT', 'RP66V1', 'LIS'):
        dd = os.path.join(d, sub, 'LAS')
        if os.path.isdir(dd):
            for name in sorted(os.listdir(dd)):
                if name.endswith('.las'):
                    out.append((os.path.join(dd, name), None))
    return out


# ------------------------------------------------------------------------------------------------ sized files
# "The answer does not depend on the file's data content or size": files whose *header part* (what precedes the first
# byte that distinguishes the format, or what the recogniser has to read through) has a chosen size, and whose total
# size has a chosen value — used around every power of two (buffer / chunk boundaries).

def _text_of_len(rng, n, alphabet=NAME_CHARS):
    return rprintable(rng, max(n, 0), alphabet).decode()


def sized_dat(rng, target):
    """DAT text whose declaration section + header line is `target` characters (when target allows at least 4 channels):
    many channels and/or long descriptions; one or more data rows follow."""
    nl = rng.choice(['\n', '\n', '\r\n'])
    sep = rng.choice([' ', '\t'])
    style = rng.randrange(3)            # 0: many short declarations, 1: few long ones, 2: mixed
    avg = (28, 110, 60)[style]
    n_extra = max(1, (target - 80) // (avg + 8))
    names = ['C%d' % i if style != 1 else 'CH%dX' % i for i in range(n_extra)]
    decl = [('UTIM', 'Unix Time', 'sec'), ('DATE', 'Date', 'ddmmyy'), ('TIME', 'Time', 'hhmmss')]
    for nm in names:
        words = ' '.join(_text_of_len(rng, rng.randint(1, 12), b'abcdefghijklmnopqrstuvwxyz') for _ in range(max(1, avg // 9)))
        decl.append((nm, words, rng.choice(['m', 'ppm', 'klb', 'm/hr', '%'])))
    order = list(decl)
    if rng.random() < 0.3:
        rng.shuffle(order)
    hdr = sep.join(a for a, _, _ in decl)
    def render(order):
        return [sep.join([a] + b.split() + [c]) for a, b, c in order]
    lines = render(order)
    size = sum(len(l) + len(nl) for l in lines) + len(hdr) + len(nl)
    # adjust the last extra declaration's description so that the section has exactly `target` characters
    i = max(k for k, d in enumerate(order) if d[0] not in ('UTIM', 'DATE', 'TIME'))
    a, b, c = order[i]
    diff = target - size
    if diff > 0:
        b = b + ' ' + 'x' * max(diff - 1, 1) if diff > 1 else b + 'x'
    elif diff < 0:
        words = b.split()
        flat = ' '.join(words)
        keep = max(1, len(flat) + diff)
        b = flat[:keep].strip() or 'x'
        b = ' '.join(b.split())
    order[i] = (a, b, c)
    lines = render(order)
    head_size = sum(len(l) + len(nl) for l in lines) + len(hdr) + len(nl)
    rows = []
    t0 = rng.randint(0, 2 * 10**9)
    for r in range(rng.choice([1, 1, 3])):
        rows.append(sep.join([str(t0 + r), '%02d%s%02d' % (rng.randint(1, 28), rng.choice(MONTHS), rng.randint(0, 99)),
                              '%02d-%02d-%02d' % (rng.randint(0, 23), rng.randint(0, 59), rng.randint(0, 59))] +
                             [rng.choice(['0', '8.5', '-999.25']) for _ in names]))
    text = (nl.join(lines + [hdr] + rows) + nl).encode('ascii')
    return text, 'DAT', {'kind': 'DAT', 'sized': target, 'head_size': head_size, 'channels': len(names), 'style': style, 'size': len(text)}


def sized_las(rng, version, target):
    """LAS text in which `target` bytes of comment / blank lines, a long section title or a long VERS description have
    to be read through before the version line is complete."""
    nl = rng.choice(['\n', '\r\n'])
    value = rng.choice(LAS_VERSION_VALUES[version])
    style = rng.randrange(4)
    def junk(total):
        out, n = [], 0
        while n < total:
            k = min(rng.choice([0, 1, 20, 79, 200, 1000]), total - n - len(nl))
            k = max(k, 0)
            l = ('#' + _text_of_len(rng, k - 1)) if (k and rng.random() < 0.8) else ' ' * k
            out.append(l); n += len(l) + len(nl)
        return out
    head, vers = '~Version Information', 'VERS.   %s : CWLS LOG ASCII STANDARD' % value
    pre, mid = [], []
    if style == 0:
        pre = junk(target)
    elif style == 1:
        mid = junk(target)
    elif style == 2:
        head = '~V' + _text_of_len(rng, max(target - 2, 0))
    else:
        vers = 'VERS. %s :%s' % (value, _text_of_len(rng, max(target - 12, 0)))
    lines = pre + [head] + mid + [vers, 'WRAP. NO : One line per depth step', '~W', 'STRT.M 1.0 :', '~C', 'DEPT.M :', '~A', '1.0']
    text = (nl.join(lines) + nl).encode('ascii')
    return text, 'LAS' + version, {'kind': 'LAS' + version, 'sized': target, 'style': style, 'size': len(text)}


def sized_rp66v1(rng, target):
    """Storage unit label + visible records; the first visible record is as large as `target` allows (<= 16384) and the
    whole file has exactly `target` bytes (target >= 104)."""
    sul, rec = rp66v1_sul(rng)
    body = bytearray()
    remaining = max(target - 80, 24)
    while remaining >= 24:
        vr = min(remaining, 16384)
        vr -= vr % 2
        n = vr - 8
        body += struct.pack('>HBB', vr, 0xff, 1) + struct.pack('>HBB', n + 4, 0x80 if not body else 0x60, rng.choice([0, 1, 5])) + rbytes(rng, n)
        remaining -= vr
    by = sul + bytes(body) + rbytes(rng, max(remaining, 0))     # an odd trailing byte / short tail: identification must not care
    rec.update(kind='RP66V1', sized=target, size=len(by))
    return by, 'RP66V1', rec


def sized_lis(rng, target, lr_pool=()):
    """LIS file (header record first) followed by large records (table dumps, comments, a real DFSR when available)
    so that about `target` bytes follow the header; written by File.FileWrite in a random layout."""
    from TotalDepth.LIS.core import File, PhysRec
    fill = rng.choice([b' ', b'\x00'])
    lrs = [lis_reel_tape_head(rng, 132, fill), lis_reel_tape_head(rng, 130, fill), lis_file_head(rng, fill)][rng.randrange(3):]
    n = sum(len(x) for x in lrs)
    if lr_pool and rng.random() < 0.4:
        for lr in rng.choice(lr_pool):
            if lr[0] in (34, 64) and n + len(lr) < target:
                lrs.append(lr); n += len(lr)
    while n < target:
        k = min(rng.choice([100, 1000, 5000, 20000, 60000]), max(target - n - 2, 0))
        lrs.append(bytes([rng.choice([232, 234, 47, 42, 85]), 0]) + rbytes(rng, k))
        n += k + 2
    tif = rng.choice(['', 't', 'tr'])
    pr_len = rng.choice([PhysRec.PR_MAX_LENGTH, 1024, 8192, 512, 4096, rng.randint(200, 9000)])
    prt = PhysRec.PhysRecTail(hasRecNum=rng.random() < 0.3, fileNum=rng.choice([None, None, 1]), hasCheckSum=rng.random() < 0.3)
    buf = _KeepOpen()
    fw = File.FileWrite(buf, 'gen', keepGoing=False, hasTif=bool(tif), thePrLen=pr_len, thePrt=prt)
    for lr in lrs:
        fw.write(lr)
    fw.close()
    by = buf.getvalue()
    if tif == 'tr':
        by = reverse_tif(by)
    return by, 'LIS' + tif, {'kind': 'LIS' + tif, 'sized': target, 'records': len(lrs), 'pr_len': pr_len, 'size': len(by),
                              'first_pr': min(pr_len, 4 + len(lrs[0]) + prt.prtLen)}


def sized_bit(rng, target):
    reverse = rng.random() < 0.25
    fmt = '>3L' if reverse else '<3L'
    out = bytearray(); prev = 0
    def block(payload, typ=0):
        nonlocal prev
        pos = len(out)
        out.extend(struct.pack(fmt, typ, prev, pos + 12 + len(payload))); out.extend(payload); prev = pos
    n_ch = rng.randint(1, 20)
    block(rbytes(rng, 4) + rprintable(rng, 160, NAME_CHARS) + struct.pack('>H', n_ch) + b'\x00\x00'
          + rprintable(rng, 4 * n_ch, b'ABCDEFGHIJKLMNOPQRSTUVWXYZ ').ljust(80) + rbytes(rng, 28))
    while len(out) + 24 + 12 < target:
        block(rbytes(rng, min(n_ch * 64, max(target - len(out) - 36, 0))))
    block(b'', 1); block(b'', 1)
    by = bytes(out)
    return by, 'BIT', {'kind': 'BIT', 'sized': target, 'size': len(by)}


def sized_other(rng, name, target):
    """The remaining formats: their own signature, then filler up to exactly `target` bytes (when the signature is shorter)."""
    if name == 'segy':
        by, code, rec = gen_segy(rng)
        by = by[:3200]
    elif name == 'rp66v2':
        by, code, rec = gen_rp66v2(rng)
        by = by[:128]
    elif name == 'lisver':
        by, code, rec = gen_lisver(rng)
    elif name == 'ascii':
        by, code, rec = b'', 'ASCII', {'kind': 'ASCII'}
    elif name in ('rp66v1t', 'rp66v1tr'):
        by, code, rec = gen_rp66v1_tif(rng, name.endswith('r'))
    else:
        by, code, rec = gen_magic(rng, name)
    if len(by) < target:
        if code in ('ASCII', 'LISVER', 'XML', 'PDF', 'PS'):
            by = by + rprintable(rng, target - len(by), b'abcdefghijklmnopqrstuvwxyz ,.;\n')
        else:
            by = by + rbytes(rng, target - len(by))
    rec = dict(rec, sized=target, size=len(by))
    return by, code, rec


def sized_lis_padded(rng, target):
    """padded LIS (see gen_lis_padded) with about `target` bytes of records after the header"""
    fill = rng.choice([b' ', b'\x00'])
    lrs = [lis_reel_tape_head(rng, 132, fill), lis_reel_tape_head(rng, 130, fill), lis_file_head(rng, fill)][rng.randrange(3):]
    n = sum(len(x) for x in lrs)
    while n < target:
        k = min(rng.choice([1, 7, 100, 1000, 5000, 20000]), max(target - n - 2, 1))
        lrs.append(bytes([rng.choice([232, 234, 47, 42, 85]), 0]) + rbytes(rng, k))
        n += k + 2
    tif = rng.choice(['', 't', 'tr'])
    if tif:
        kind, pn = rng.choice(PAD_SCHEMES_TIF); nonnull = rng.random() < 0.4
    else:
        kind, pn, nonnull = rng.choice(PAD_SCHEMES_PLAIN)
    pv = (lambda: rng.choice([32, rng.randrange(1, 256)])) if nonnull else (lambda: 0)
    pr_max = rng.choice([65535, 8192, 1024, 131, rng.randint(60, 3000)])
    by, nprs, first_span = build_padded_lis(lrs, tif, pr_max, (kind, pn), pv, 0, (rng.random() < 0.3, rng.choice([None, 1]), rng.random() < 0.3))
    return by, 'LIS' + tif, {'kind': 'LIS' + tif, 'sized': target, 'padded': [kind, pn], 'nonnull': nonnull, 'pr_max': pr_max,
                              'physical_records': nprs, 'first_pr': first_span, 'size': len(by)}


def gen_sized(rng, name, target, pools=None):
    pools = pools or {}
    if name == 'lispad': return sized_lis_padded(rng, target)
    if name == 'dat': return sized_dat(rng, target)
    if name in ('las12', 'las20', 'las30'): return sized_las(rng, {'las12': '1.2', 'las20': '2.0', 'las30': '3.0'}[name], target)
    if name == 'rp66v1': return sized_rp66v1(rng, target)
    if name == 'lis': return sized_lis(rng, target, pools.get('lis', ()))
    if name == 'bit': return sized_bit(rng, target)
    return sized_other(rng, name, target)


# ------------------------------------------------------------------------------------------------ padded LIS
# LIS-79 2.3.1.1: "a Physical Record may be padded with null characters to guarantee a minimum record size"; real files
# also pad to 2/4/8 byte boundaries, sometimes with non-null bytes.  The repository's writer never pads, so this is an
# encoder of its own.  With TIF markers the `next` pointer skips the padding (any scheme is readable); without TIF the
# reader can only resynchronise on padding to a multiple of 2 or 4 bytes, and with non-null bytes only modulo 2
# (modulo-4 non-null padding used to tie with modulo 2 in the pad-option scan; identified since /repo 7ad9eab / 80d49da).

PAD_SCHEMES_TIF = [('mod', 2), ('mod', 4), ('mod', 8), ('min', 64), ('min', 80), ('min', 128)]
PAD_SCHEMES_PLAIN = [('mod', 2, False), ('mod', 4, False), ('mod', 2, True), ('mod', 4, True)]      # (kind, n, non-null allowed)


def build_padded_lis(lrs, tif, pr_max, pad, padval, attr_extra=0, trailer=(False, None, False)):
    """Physical records (+ TIF markers when `tif` is 't' or 'tr') for the logical records `lrs`; after every physical
    record `pad` = ('mod', n): fill to a multiple of n bytes / ('min', n): fill the record up to n bytes, with bytes
    from `padval()`.  Returns (bytes, number of physical records, span of the first record incl. padding)."""
    out = bytearray()
    prev = 0
    recno = 0
    has_rec, file_num, has_chk = trailer
    prt = (2 if has_rec else 0) + (2 if file_num is not None else 0) + (2 if has_chk else 0)
    mp = pr_max - 4 - prt
    fmt = '>3L' if tif == 'tr' else '<3L'
    first_span = None

    def marker(ty, nxt):
        nonlocal prev
        pos = len(out)
        out.extend(struct.pack(fmt, ty, prev, nxt))
        prev = pos

    for lr in lrs:
        chunks = [lr[i:i + mp] for i in range(0, len(lr), mp)]
        for ci, c in enumerate(chunks):
            attr = attr_extra | (0x200 if has_rec else 0) | (0x400 if file_num is not None else 0) | (0x1000 if has_chk else 0)
            if ci < len(chunks) - 1:
                attr |= 1
            if ci > 0:
                attr |= 2
            pr = struct.pack('>HH', 4 + len(c) + prt, attr) + c
            if has_rec:
                pr += struct.pack('>H', recno % 65536)
            if file_num is not None:
                pr += struct.pack('>H', file_num)
            if has_chk:
                pr += b'\x00\x00'
            recno += 1
            kind, n = pad
            if kind == 'mod':
                padlen = (-(len(out) + (12 if tif else 0) + len(pr))) % n if n else 0
            else:
                padlen = max(n - len(pr), 0)
            if tif:
                marker(0, len(out) + 12 + len(pr) + padlen)
            out += pr + bytes(padval() for _ in range(padlen))
            if first_span is None:
                first_span = len(pr) + padlen
    if tif:
        marker(1, len(out) + 12)
        marker(1, len(out) + 12)
    return bytes(out), recno, first_span


def gen_lis_pad_break(rng):
    """Plain (no TIF) null-padded LIS files on which several pad options of the discovery scan TIE:
    style 'late'  — padding to a multiple of 2 or 4; the header and the first k physical records (k around the scan limit
                    of 100: 99, 100, 101, or a few) have lengths that need no PAD byte (so every option reads them), a
                    later record has a length that needs PAD bytes only the file's own option consumes;
    style 'short' — a short file: header | odd record + 1 PAD | a record whose length is a multiple of 256 plus a little
                    (so that the mis-aligned header read with pad 0 is a plausible short record) | small record; every
                    option (but one) counts the same number of records and the first ones cannot build the index.
    Both are valid LIS files (null padding, LIS-79 2.3.1.1)."""
    fill = rng.choice([b' ', b'\x00'])
    style = rng.choice(['late', 'late', 'short'])
    if style == 'late':
        mod = rng.choice([2, 4])
        has_rec = True                      # 2-byte trailer: the 58-byte file header gives a 64-byte physical record
        k = rng.choice([99, 100, 101, 98, 102, 3, 20, 150])
        def rec(n):                         # logical record with n payload bytes after the 2-byte header
            return bytes([rng.choice([232, 234, 47, 42]), 0]) + rbytes(rng, n)
        aligned = [2, 6, 10] if mod == 4 else [2, 4, 6, 8]           # PR length 4 + (2 + n) + 2 multiple of mod
        lrs = [lis_file_head(rng, fill)] + [rec(rng.choice(aligned)) for _ in range(k)]
        bad = rng.choice([1, 3, 4, 5] if mod == 4 else [1, 3, 5])    # PR length not a multiple of mod
        if mod == 4 and bad == 4:
            bad = 0 + 4                                              # length 12 + ... keep explicit: 4+2+4+2 = 12 -> aligned; use 2 pad case below
            bad = 0
        lrs.append(rec(bad))
        lrs += [rec(rng.choice(aligned + [1, 3])) for _ in range(rng.choice([1, 2, 5, 30]))]
        by, nprs, first_span = build_padded_lis(lrs, '', 65535, ('mod', mod), lambda: 0, 0, (has_rec, None, False))
        rec_ = {'kind': 'LIS', 'padbreak': 'late', 'mod': mod, 'aligned_prs': k + 1, 'physical_records': nprs, 'first_pr': first_span, 'size': len(by)}
    else:
        n2 = rng.choice([1, 3, 5, 7, 9, 21])
        hi, lo = rng.randint(1, 9), rng.choice([0, 1, 2, 3, 7, 191, rng.randrange(256)])
        n3 = max(hi * 256 + lo - 6, 1)
        fb = rng.choice([32, 0, 65, rng.randrange(256)])
        lrs = [lis_file_head(rng, fill), bytes([232, 0]) + bytes([fb]) * n2, bytes([232, 0]) + bytes([fb]) * n3, bytes([232, 0, 1])]
        by, nprs, first_span = build_padded_lis(lrs, '', 65535, ('mod', 2), lambda: 0)
        rec_ = {'kind': 'LIS', 'padbreak': 'short', 'n2': n2, 'n3': n3, 'physical_records': nprs, 'first_pr': first_span, 'size': len(by)}
    return by, 'LIS', rec_


def gen_lis_padded(rng, lr_pool=()):
    """A valid LIS file (header record first) whose physical records are followed by PAD bytes."""
    if rng.random() < 0.25:
        return gen_lis_pad_break(rng)
    fill = rng.choice([b' ', b'\x00'])
    lrs = [lis_reel_tape_head(rng, 132, fill), lis_reel_tape_head(rng, 130, fill), lis_file_head(rng, fill)][rng.randrange(3):]
    body = rng.randrange(4)
    if body == 0 and lr_pool:
        pool = rng.choice(lr_pool)
        k = rng.choice([len(pool), rng.randint(0, len(pool)), rng.randint(0, min(len(pool), 12))])
        lrs += [lr for lr in pool[:k] if lr[0] not in (128, 130, 132)]
    elif body == 1:       # many small records: more than 100 physical records
        for _ in range(rng.choice([110, 150, 260, 400])):
            lrs.append(bytes([rng.choice([232, 234, 47, 42]), 0]) + rbytes(rng, rng.choice([1, 2, 3, 5, 8, 13, 60, 61])))
    else:
        for _ in range(rng.randint(0, 6)):
            lrs.append(bytes([rng.choice([232, 234, 224, 225, 227, 85, 86, 47, 42]), 0]) + rbytes(rng, rng.choice([1, 2, 7, 80, 81, 501, 3001])))
    if rng.random() < 0.5:
        lrs.append(b'\x81\x00' + lis_file_head(rng, fill)[2:])
    tif = rng.choice(['', 't', 't', 'tr', 'tr'])
    if tif:
        kind, n = rng.choice(PAD_SCHEMES_TIF)
        nonnull = rng.random() < 0.4
    else:
        kind, n, nn_ok = rng.choice(PAD_SCHEMES_PLAIN)
        nonnull = nn_ok
    pv = (lambda: rng.choice([32, 32, rng.randrange(1, 256)])) if nonnull else (lambda: 0)
    # a small maximum PR length cuts long records into many physical records (body 1 with 67 gives several hundred)
    pr_max = rng.choice([65535, 8192, 1024, 130, 67, rng.randint(40, 3000)])
    # unused / reserved attribute bits may be set (LIS-79 defines no meaning for them); type bit 14 and the undefined checksum
    # codes are not LIS-79 and are not generated as valid files
    attr_extra = rng.choice([0, 0, 0, 0x0004, 0x0110, 0x8000, 0x0888])
    trailer = (rng.random() < 0.3, rng.choice([None, None, 1, 255]), rng.random() < 0.3)
    by, nprs, first_span = build_padded_lis(lrs, tif, pr_max, (kind, n), pv, attr_extra, trailer)
    rec = {'kind': 'LIS' + tif, 'padded': [kind, n], 'nonnull': nonnull, 'pr_max': pr_max, 'attr_extra': attr_extra, 'trailer': list(trailer),
           'records': len(lrs), 'physical_records': nprs, 'first_pr': first_span, 'size': len(by)}
    return by, 'LIS' + tif, rec
